#!/usr/bin/env python3
"""Run clover's own suite (guard off - there are no hooks) and compare with the pinned
stable set of /root/.vp/BASELINE.json. Exit 0 iff every stable test still passes."""
import json, os, subprocess, sys
base = json.load(open('/root/.vp/BASELINE.json'))
stable = set(base['stable_pass'])
env = dict(os.environ, GOFLAGS='-mod=mod', GOPROXY='off', GOSUMDB='off', GOTOOLCHAIN='local')
p = subprocess.run(['go', 'test', '-json', '-vet=off', '-count=1', '-timeout', '25m', './...'], cwd=(sys.argv[1] if len(sys.argv) > 1 else '/repo'), env=env,
                   stdout=subprocess.PIPE, stderr=subprocess.STDOUT, text=True)
passed, failed = set(), set()
for line in p.stdout.splitlines():
    try:
        e = json.loads(line)
    except Exception:
        continue
    if e.get('Test') and e.get('Action') in ('pass', 'fail'):
        name = '%s::%s' % (e['Package'], e['Test'])
        (passed if e['Action'] == 'pass' else failed).add(name)
missing = sorted(stable - passed)
print('stable %d, passed %d, failed %d, stable-but-not-passing %d' % (len(stable), len(passed), len(failed), len(missing)))
for m in missing:
    print('  NOT PASSING:', m)
newfail = sorted(failed - set(base.get('always_fail', [])))
for m in newfail:
    print('  newly failing:', m)
sys.exit(1 if missing else 0)
