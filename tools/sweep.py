#!/usr/bin/env python3
"""Catch-rate sweep: runs the quick check of the targeted property against every stored seeded
change at several VERIF_SEED values and records how often it is caught.

  tools/sweep.py [--root /verif] [--repo /repo] [--seeds 1,2,3] [ids...]

--root/--repo allow running in a development copy (a harness whose go.mod replaces clover by
another worktree). Results: <root>/seeded_sweep.json (id -> {property, seeds: {seed: exit}}).
"""
import argparse, glob, json, os, subprocess, sys

ENV = dict(os.environ, GOFLAGS='-mod=mod', GOPROXY='off', GOSUMDB='off', GOTOOLCHAIN='local', VERIF_NOMIN='1')


def sh(cmd, cwd=None, timeout=3600, env=None):
    p = subprocess.run(cmd, shell=True, cwd=cwd, env=env or ENV, stdout=subprocess.PIPE, stderr=subprocess.STDOUT, text=True, timeout=timeout)
    return p.returncode, p.stdout


def main():
    ap = argparse.ArgumentParser()
    ap.add_argument('--root', default='/verif')
    ap.add_argument('--repo', default='/repo')
    ap.add_argument('--seeds', default='1,2,3')
    ap.add_argument('ids', nargs='*')
    a = ap.parse_args()
    seeds = [int(x) for x in a.seeds.split(',')]
    env = dict(ENV)
    if a.root != '/verif':
        env['VERIF_REPLAYS'] = os.path.join(a.root, 'replays')
    outp = os.path.join(a.root, 'seeded_sweep.json')
    res = json.load(open(outp)) if os.path.exists(outp) else {}
    metas = sorted(glob.glob('/verif/seeded/*/meta.json'))
    for f in metas:
        m = json.load(open(f))
        sid = m['id']
        if a.ids and sid not in a.ids:
            continue
        caught = m.get('caught') or [p for p, r in m.get('checks_run_against_it', {}).items() if r['exit'] == 1]
        prop = m['breaks_property'] if (m['breaks_property'] in caught or not caught) else caught[0]
        if not caught:
            continue  # documented as not catchable
        rc, out = sh('git -C %s diff --quiet' % a.repo)
        if rc != 0:
            print('%s dirty, refusing' % a.repo)
            return 2
        entry = res.setdefault(sid, {'property': prop, 'seeds': {}})
        entry['property'] = prop
        try:
            rc, out = sh('git -C %s apply %s' % (a.repo, os.path.join(os.path.dirname(f), 'patch.diff')))
            if rc != 0:
                print(sid, 'patch does not apply')
                continue
            for sd in seeds:
                if str(sd) in entry['seeds'] and not a.ids:
                    continue
                rc, out = sh('./check %s --tier quick --seed %d' % (prop, sd), cwd=a.root, env=env)
                entry['seeds'][str(sd)] = rc
                if rc == 1 and not entry.get('detail'):
                    ol = out.splitlines()
                    for i, l in enumerate(ol):
                        if l.startswith('VIOLATION') and i + 1 < len(ol):
                            entry['detail'] = ol[i + 1].strip()[:300]
                            break
                if rc not in (0, 1):
                    entry.setdefault('infra', []).append(out[-400:])
            print(sid, prop, entry['seeds'], flush=True)
        finally:
            sh('git -C %s checkout -- .' % a.repo)
            sh('git -C %s clean -fdq' % a.repo)
        json.dump(res, open(outp, 'w'), indent=1, sort_keys=True)
    return 0


if __name__ == '__main__':
    sys.exit(main())
