#!/usr/bin/env python3
"""Prints the markdown table of /verif/seeded (for DESIGN.md section 9.5)."""
import json, glob, re
import os
sweep = {}
if os.path.exists('/verif/seeded_sweep.json'):
    sweep = json.load(open('/verif/seeded_sweep.json'))
rows = []
for f in sorted(glob.glob('/verif/seeded/*/meta.json'), key=lambda p: (re.sub(r'^S[0-9]?-', '', p.split('/')[-2]), p)):
    m = json.load(open(f))
    r = m.get('checks_run_against_it', {})
    caught = [p for p, v in r.items() if v['exit'] == 1]
    clause = ''
    for p in caught:
        d = r[p].get('detail', '') or r[p].get('first', '')
        mm = re.search(r'\[(C\d+/[^\]]+)\]', d) or re.search(r'regression of fixed finding (\w+)', d)
        if mm:
            clause = mm.group(1)
            break
    def short(s, n):
        s = re.sub(r'\s+', ' ', str(s)).replace('|', '/')
        return s if len(s) <= n else s[:n - 1] + '…'
    sw = sweep.get(m['id'])
    rate = ''
    if sw and sw.get('seeds'):
        k = sum(1 for v in sw['seeds'].values() if v == 1)
        rate = ' [%s: %d/%d seeds]' % (sw['property'], k, len(sw['seeds']))
        if k and sw['property'] not in caught:
            caught.append(sw['property'])
    if m.get('neutralised_by'):
        rate = ' [no longer a defect: ' + m['neutralised_by'] + ']'
    rows.append('| %s | %s | %s | %s | %s |' % (m['id'], m['breaks_property'], short(m.get('summary', ''), 170), short(m.get('needs', ''), 130),
                                              ((', '.join(caught) + (' (' + clause + ')' if clause else '')) if caught else '**not caught**') + rate))
print('| id | property | change | needs | caught by (quick tier) |')
print('|---|---|---|---|---|')
print('\n'.join(rows))
