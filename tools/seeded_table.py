#!/usr/bin/env python3
"""Prints the markdown table of /verif/seeded (for DESIGN.md section 9.5)."""
import json, glob, re
rows = []
for f in sorted(glob.glob('/verif/seeded/*/meta.json'), key=lambda p: (re.sub(r'^S2?-', '', p.split('/')[-2]), p)):
    m = json.load(open(f))
    r = m.get('checks_run_against_it', {})
    caught = [p for p, v in r.items() if v['exit'] == 1]
    clause = ''
    for p in caught:
        d = r[p].get('detail', '') or r[p].get('first', '')
        mm = re.search(r'\[(C\d+/[^\]]+)\]', d) or re.search(r'regression of fixed finding (\w+)', d)
        if mm:
            clause = mm.group(1)
            break
    def short(s, n):
        s = re.sub(r'\s+', ' ', str(s)).replace('|', '/')
        return s if len(s) <= n else s[:n - 1] + '…'
    rows.append('| %s | %s | %s | %s | %s |' % (m['id'], m['breaks_property'], short(m.get('summary', ''), 170), short(m.get('needs', ''), 130),
                                              (', '.join(caught) + (' (' + clause + ')' if clause else '')) if caught else '**not caught**'))
print('| id | property | change | needs | caught by (quick tier) |')
print('|---|---|---|---|---|')
print('\n'.join(rows))
