#!/bin/bash
# usage: tools/try_mutation.sh <patch.diff> <property>...   (applies the patch to /repo, runs the quick checks, always reverts)
set -u
patch=$(realpath "$1"); shift
if ! git -C /repo diff --quiet; then echo "/repo has local changes, refusing"; exit 3; fi
trap 'git -C /repo checkout -- . ; git -C /repo clean -fdq -- . 2>/dev/null' EXIT
git -C /repo apply "$patch" || { echo "patch does not apply"; exit 3; }
for p in "$@"; do
  out=$(cd /verif && VERIF_SEED=${VERIF_SEED:-1} timeout 1200 ./check "$p" --tier ${TIER:-quick} 2>&1)
  rc=$?
  echo "== $p rc=$rc"
  echo "$out" | grep -E "^(VIOLATION|OK|INCONCLUSIVE|KNOWN|BUILD)" | cut -c1-400 | head -5
  echo "$out" | grep -A2 "^VIOLATION" | sed -n 2p | cut -c1-500
done
