#!/usr/bin/env python3
"""Re-runs quick checks against an already confirmed seeded change (after the checks were
strengthened) and updates its meta.json; the result of the first pass is kept.

  tools/recheck.py <seeded-id> <property> [more properties]
"""
import json, os, subprocess, sys

ENV = dict(os.environ, GOFLAGS='-mod=mod', GOPROXY='off', GOSUMDB='off', GOTOOLCHAIN='local')


def sh(cmd, cwd=None, timeout=3600):
    p = subprocess.run(cmd, shell=True, cwd=cwd, env=ENV, stdout=subprocess.PIPE, stderr=subprocess.STDOUT, text=True, timeout=timeout)
    return p.returncode, p.stdout


def main():
    sid, props = sys.argv[1], sys.argv[2:]
    dst = os.path.join('/verif/seeded', sid)
    meta = json.load(open(os.path.join(dst, 'meta.json')))
    patch = os.path.join(dst, 'patch.diff')
    rc, out = sh('git -C /repo diff --quiet')
    if rc != 0:
        print('/repo dirty, refusing')
        return 2
    results = {}
    try:
        rc, out = sh('git -C /repo apply %s' % patch)
        if rc != 0:
            print('patch does not apply', out)
            return 1
        for p in props:
            rc, out = sh('./check %s --tier quick' % p, cwd='/verif')
            lines = [l for l in out.splitlines() if l.startswith(('VIOLATION', 'OK', 'INCONCLUSIVE', 'BUILD'))]
            detail = ''
            ol = out.splitlines()
            for i, l in enumerate(ol):
                if l.startswith('VIOLATION') and i + 1 < len(ol):
                    detail = ol[i + 1].strip()[:400]
                    break
            results[p] = {'exit': rc, 'first': (lines[0][:200] if lines else out[-300:]), 'detail': detail}
            print(sid, p, rc, results[p]['first'], '|', detail[:200])
    finally:
        sh('git -C /repo checkout -- .')
        sh('git -C /repo clean -fdq')
    if 'first_pass' not in meta and sid.startswith('S4-'):
        meta['first_pass'] = {'checks_run_against_it': meta.get('checks_run_against_it', {}), 'caught': meta.get('caught', [])}
    merged = dict(meta.get('checks_run_against_it', {}))
    merged.update(results)
    meta['checks_run_against_it'] = merged
    meta['caught'] = [p for p, r in merged.items() if r['exit'] == 1]
    meta['rechecked'] = 'tools/recheck.py after the checks were strengthened'
    json.dump(meta, open(os.path.join(dst, 'meta.json'), 'w'), indent=1)
    return 0


if __name__ == '__main__':
    sys.exit(main())
