#!/usr/bin/env python3
"""Regenerates /verif/MANIFEST.json from the table below."""
import json, os

ROOT = os.path.dirname(os.path.dirname(os.path.abspath(__file__)))

TRUST = ("Trusted base: the reference model in harness/model (written from the property statements and the README, "
         "independent of clover's code), the interpreters in harness/run, rapid v1.3.0, the Go toolchain. "
         "Verdict = held on everything explored; no claim of absence.")

SM = "model-based stateful property testing (rapid state machine vs reference model, delta-debugged replay files)"

CHECKS = {
    "C01": dict(technique=SM + "; oracle: independent criteria evaluator",
        text="Generated histories of every write operation over several collections (indexes absent, created before or after the data) on bbolt (quick) and bbolt+badger (thorough); every FindAll/ForEach/FindById is compared with an independent reference evaluator over the model's live documents, with type-strict document equality and a tie-aware oracle for sorted windows. Exploration is the right level: the property quantifies over histories x documents x criteria trees, which can only be sampled; the generator is built to hit the planner's cells (Or/Not nesting, nil and field-reference operands, mixed types, index on the filtered field).",
        design="6/C01"),
    "C02": dict(technique="differential stateful property testing: twin collections with and without indexes receive identical histories (rapid), plus the reference model",
        text="Twin collections A (never indexed) and B (generated index set, created before/between/after writes) receive identical writes; FindAll, Count, Update and Delete with generated criteria, sorts and windows must select the same documents and the same sort-key sequence on both, and a counting store decorator measures whether B's plan really touched index keys. Exploration: the space is criteria shape x index set x direction x value types.",
        design="6/C02"),
    "C03": dict(technique="property-based testing over parameterised collection sizes and page layouts with a callback-recording updater; oracle: FindAll before the call + model",
        text="Collections constructed from drawn parameters (0 to several thousand documents, pad sizes spanning many bbolt pages, index sets, both backends); Update/UpdateFunc/Delete/DropCollection must touch exactly the documents FindAll returned immediately before, the callback must run once per document on its pre-call value, every other document stays unchanged, followed by a raw key audit.",
        design="6/C03"),
    "C04": dict(level="fault_enumeration", technique="fault injection by enumeration: a store decorator fails the k-th store call (begin/get/set/delete/cursor item/commit) for every k an operation makes; generated states and operations; oracle: raw key/value dump unchanged, error reported, handle still usable",
        text="For generated (state, operation) pairs the number of store calls M is measured in a dry run, then for every position k <= M (sampled evenly in the quick tier) the state is rebuilt and the k-th call fails; also every invalid-input failure. The raw key/value dump must equal the pre-call dump, the injected error must surface, and a follow-up write must succeed. Fault enumeration is the right level: the property quantifies over positions of the failing call, a finite set per operation that is enumerated.",
        design="6/C04"),
    "C05": dict(level="fault_enumeration", technique="crash-point enumeration: a worker process replays a generated program and is killed (SIGKILL) inside the k-th store call / at sampled instants; clean close+reopen after every prefix; oracle: reopened state equals the model after the last acknowledged or the in-flight operation",
        text="Generated write programs run in a child process on bbolt and badger on disk; the child is killed inside enumerated store calls of each operation (transaction abandoned before commit), inside commit, and at random instants; the parent reopens the directory and requires the full logical state (catalog, documents, index-backed queries, raw key audit) to equal the model after the last ACK or after the in-flight operation. Process death only - power loss is out of reach.",
        design="6/C05"),
    "C06": dict(technique=SM + "; oracle: complete raw key space vs key set derived from the model (fresh-rebuild differential for index entries)",
        text="Failure-rich histories (absent-id deletes, failing writes, drop/re-create under the same name, prefix-related index fields, in-place updaters) on bbolt and badger; after every step the complete raw key space must equal the key set derived from the model: metadata with exact Size and index list, one record per live document, exactly one entry per document and index under its current value, nothing else.",
        design="6/C06"),
    "C07": dict(technique="randomised concurrent programs with schedule perturbation at every store call, recorded histories checked for linearizability against the reference model (porcupine), same runs under the Go race detector",
        text="2-8 goroutines issue generated operations on one handle over shared collections on bbolt and badger; a yielding store decorator perturbs the schedule from a drawn bit vector; the recorded call/return history must be linearizable with respect to the reference model; the race-enabled binary must report no data race. Schedules are sampled, not enumerated.",
        design="6/C07"),
    "C08": dict(technique="property-based testing of sort/skip/limit against a tie-aware window oracle (reference total order), with and without indexes",
        text="Collections with few distinct, mixed-type, nil and absent sort keys (ties guaranteed), 1-3 sort options in every direction value, Sort() without options, skip/limit including 0, negative and beyond the size, index on sort and/or filter field; the result must be the window of some correctly sorted order (complete and sound tie-aware rule), unsorted windows by cardinality and membership.",
        design="6/C08"),
    "C09": dict(technique=SM + "; oracle: differential between derived calls and FindAll on the same state, snapshots of the query object and of the raw store",
        text="On generated states and queries Count, Exists, FindFirst, ForEach (with a consumer stopping at a drawn k) and FindById are compared with FindAll of the same query on the same state; the query object (collection, criteria, skip, limit, sort) and the raw store are snapshotted before and after to show that neither calls nor builder methods mutate.",
        design="6/C09"),
    "C10": dict(technique="property-based testing of pairs/triples over a boundary-rich value domain: reference comparator (differential), preorder laws (algebraic), key order = comparison order (metamorphic); native fuzzing of the same targets in the thorough tier",
        text="Pairs and triples from boundary-rich value sets (int64/uint64 extremes, -0.0, infinities, 0x00/0xFF strings, nested containers, times over the representable range): the sign of clover's comparison (read off Gt/Lt/Eq criteria) equals the reference comparator's, is reflexive, antisymmetric and transitive, and index key bytes (index.Add on a recording transaction) sort exactly like the values.",
        design="6/C10"),
    "C11": dict(technique="round-trip property-based testing (write, read by id / by query / after reopen; document.Encode/Decode) with type-strict equality",
        text="Generated documents to depth 4 with integer extremes, empty containers, non-UTF-8 strings and zoned times inside arrays and objects are written through Insert/Save/Update/ReplaceById and read back by id, by query and after Close/Open; the result must be deeply equal with exact Go types and zone offsets.",
        design="6/C11"),
    "C12": dict(technique=SM + "; validity predicate for _id-rewriting updates",
        text="Id-centred histories (generated and supplied ids, duplicates at every batch position, malformed ids, same ids in two collections, Save/ReplaceById mismatches, updates that rewrite _id); the model decides assignment, ErrDuplicateKey and rejection, and after every step FindById(c,id) may only return a document whose _id is id, scans and FindById agree, and unaddressed documents are unchanged.",
        design="6/C12"),
    "C13": dict(technique=SM + "; catalog and every other collection compared with the model after each step",
        text="Histories over prefix-related, dotted, colon, unicode and empty collection names with 2-5 live collections sharing ids; after every step the catalog, the sentinel errors and the full contents, index list and Count of every collection must equal the model.",
        design="6/C13"),
    "C14": dict(technique=SM + "; index catalog and queries through surviving indexes compared with the model",
        text="Index creation/drop interleaved with writes over prefix pairs (x/xy) and dotted sub-paths (n/n.a); ListIndexes/HasIndex and sentinels equal the model and every surviving index must still answer ordered scans (both directions) and range queries like the model after each catalog change.",
        design="6/C14"),
    "C15": dict(technique="differential stateful property testing across storage backends (same history on bbolt, badger in memory, badger on disk) plus a model-based property test of the store.Cursor contract on both adapters",
        text="The same generated single-threaded history runs on bbolt, badger in memory and badger on disk (small files; shipped default options in the thorough tier); every step must give the same documents in the same order, counts, catalogs and the same sentinel (or an error on all). Separately both adapters' cursors are checked against a sorted-slice model: forward/reverse seek to present/absent/out-of-range targets, each key once in order, empty values visible.",
        design="6/C15"),
    "C16": dict(technique="property-based testing of criteria: reference truth value (differential) and algebraic/metamorphic identities (double negation, De Morgan, Neq=Not Eq, In, Contains, literal-kind invariance, field-reference substitution)",
        text="Generated criteria trees and documents (absent fields, nil, mixed types, every Go numeric kind for the same literal, field references to absent fields, Contains operand lists that repeat elements of a stored array and outnumber them) are evaluated with Satisfy (raw and pre-normalised literals) and through FindAll; results must equal the reference evaluator and satisfy the Boolean identities and literal-kind invariance the property lists.",
        design="6/C16"),
    "C17": dict(technique="model-based property testing of index.RangeIndex over real bbolt and badger transactions (filtered sorted slice as the model)",
        text="Indexes populated through Add with duplicate, nil and mixed-type values on real transactions of both backends; IterateRange over generated ranges (bounds mostly equal to stored values, both inclusivity flags, both directions, nil-only range), a consumer stopping after k, Iterate, Intersect and IsEmpty are compared with a filtered sorted-slice model.",
        design="6/C17"),
    "C18": dict(technique="property-based testing with reflection-built Go values: reference normaliser (differential), idempotence, Set/Get/Has laws, struct round trip",
        text="Go values built by reflection (every integer/float width, pointer chains incl. to times and nil, maps, slices, arrays, tagged/embedded/nested structs, unsupported kinds) are normalised through Document.Set/NewDocumentOf and compared with a reference normaliser; idempotence, unsupported => unchanged, dotted-path laws and struct -> document -> Unmarshal round trips are checked.",
        design="6/C18"),
    "C19": dict(technique="round-trip property-based testing of ExportCollection/ImportCollection against the JSON image of the model, plus generated failure paths",
        text="Generated collections of JSON-representable documents (with/without indexes) are exported and imported under a new name; count, ids, field sets and JSON-typed values must match, the source must be untouched, and failing imports (existing name, unreadable or ill-formed file, wrong shape) must leave every existing collection unchanged (raw dump).",
        design="6/C19"),
    "C20": dict(technique=SM + " with a hostile action mix; oracle: recover() and a per-call deadline around every public call",
        text="Every engine wraps every clover call in recover() and a deadline; in addition a hostile profile drives negated In/Like/Exists/Contains/MatchFunc with 0-2 indexes, field-reference and un-normalisable operands, missing collections/indexes/documents for every API, every API after Close, double Close and empty batches, on bbolt and badger. A panic or a reproducible hang is a violation.",
        design="6/C20"),
}

FAULTS = " About a tenth of the operations additionally run with one failing store call (generic fault mode): the call must report an error and leave no trace."
CONC = " A concurrent part (C07 engine: schedule perturbed at every store call, recorded history incl. a sequential epilogue checked for linearizability, or an at-most-one-winner race) covers the schedules under which check-then-act slips and lost updates show."
for k in ("C01", "C05", "C06", "C08", "C09", "C12", "C13", "C14", "C19", "C20"):
    CHECKS[k]["text"] += FAULTS
for k in ("C02", "C03", "C06", "C09", "C10", "C11", "C12", "C13", "C14", "C19", "C20"):
    CHECKS[k]["text"] += CONC
FUZZ = " Thorough tier only: the same property function also runs as a native coverage-guided fuzz target (go test -fuzz through rapid.MakeFuzz, 16 workers, VERIF_FUZZTIME seconds, fresh corpus); a failing input is reported through the same structured replay file."
for k in ("C08", "C10", "C11", "C16", "C17", "C18"):
    CHECKS[k]["text"] += FUZZ
    if "native" not in CHECKS[k]["technique"]:
        CHECKS[k]["technique"] += "; native coverage-guided fuzzing (go test -fuzz) of the same property function in the thorough tier"
CHECKS["C19"]["text"] += " Thorough tier only: a native fuzz target (go test -fuzz) feeds raw bytes to ImportCollection as the file content; ill-formed content must fail without a trace, well-formed content must be imported exactly, the existing collection, its index and the catalog stay untouched."
CHECKS["C19"]["technique"] += "; byte-level native fuzzing (go test -fuzz) of the import file in the thorough tier"
EXTRA = {
    "C05": " A short-file part cuts the data file of a new bbolt database to 0-16383 bytes (what a kill during the very first Open leaves behind) and requires the directory to open again, empty; the first three write / sync positions of every program (inside Open) are always among the kill points. Crash targets include imports of 1100-2500 documents into a new collection (one operation: nothing of it may survive a kill inside it).",
    "C13": " A dedicated part creates two collections whose name + index field spell the same text when joined by a separator (p / q<sep>r against p<sep>q / r) with shared document ids and checks scans, counts, index drops and collection drops on both.",
    "C15": " The cursor contract also covers keys deleted again, a rolled-back transaction (no trace) and two cursors open at once in one read-only transaction (independent positions).",
    "C18": " Has/Get of every path of the alphabet are compared with the reference lookup before and after Set (reads must not change the document), SetAll equals Set, Copy/AsMap show the same content, and document.Encode (what Insert does) must leave the document canonical and decode to it.",
    "C09": " IterateDocs (the exported engine under ForEach/Count) must visit exactly the FindAll sequence as well; a third of the histories start from 13-40 documents over a tiny value domain, so that FindFirst/ForEach identity is checked among many ties and beyond a dozen results.",
    "C02": " A string-twins part stores strings with NUL and 0xFF bytes right after shared prefixes in an indexed and an unindexed collection and queries both with anchored Like patterns over stored prefixes, comparisons and pairs around stored strings.",
    "C11": " Half of the round trips run with an index on a nested path (index maintenance reads the path on every written document, also where a scalar sits in its way); one read goes through a Contains criterion.",
    "C19": " A big-round-trip part exports a collection of 1025-3100 documents, drops it and imports the file again under the same and under a second name.",
    "C03": " The bulk operation is sometimes run first with one store call failing (it must report the failure and touch nothing), and single documents are rewritten through ReplaceById / Save before it.",
    "C01": " The raw key space is audited after every DropCollection / DropIndex (what a drop leaves behind only turns into wrong query results once the same name, index and ids are used again).",
    "C07": " A fresh-ids part lets 2-8 goroutines insert batches of documents without _id at the same moment (every assigned id valid and unique, the collection holds exactly the acknowledged documents). A snapshot-readers part runs one writer issuing bulk Updates over 257-1100 documents against readers that export, scan and index-scan the collection: every single ExportCollection / FindAll result must show one generation for all documents.",
    "C20": " A document-API part drives Set / SetAll / Get / Has / Copy / AsMap / Fields / NewDocumentOf / Unmarshal / Encode with reflection-built Go values (including structs embedding unexported types) for panics.",
    "C04": " Count without criteria (answered from the collection metadata, with skip) is among the operations under fault; the ghost probe also counts with a skip.",
    "C12": " Caller-supplied ids include the all-zero and all-F UUIDs; id-less documents of a batch built from one Go map must receive distinct ids.",
    "C14": " Field alphabets include names differing only by a trailing blank or by case; after every catalog change criteria served by one index are combined with a sort on another indexed field.",
}
for k, v in EXTRA.items():
    CHECKS[k]["text"] += v
ARGS = " Every call's arguments (documents, update maps, query objects with type-exact literals) are compared before and after the call: clover must not alter what the caller handed in, apart from assigning a missing _id."
for k in ("C01", "C02", "C03", "C06", "C09", "C11", "C12", "C13", "C14", "C19", "C20"):
    CHECKS[k]["text"] += ARGS
BUILT = ["C%02d" % i for i in range(1, 21)]
CHECKS = {k: v for k, v in CHECKS.items() if k in BUILT}

NOT_YET = {}


def main():
    checks = []
    for pid in sorted(CHECKS):
        c = CHECKS[pid]
        checks.append({
            "property_id": pid,
            "quick_cmd": "./check %s --tier quick" % pid,
            "thorough_cmd": "./check %s --tier thorough" % pid,
            "evidence_file": "/verif/evidence/%s.json" % pid,
            "replay_cmd_template": "./check %s --replay {path}" % pid,
            "engine": c.get("engine", "harness"),
            "level_claimed": {"category": c.get("level", "exploration"), "text": c["text"], "design_ref": "DESIGN.md section " + c["design"]},
            "level_note": c.get("note", TRUST),
            "technique": c["technique"],
        })
    all_ids = ["C%02d" % i for i in range(1, 21)]
    na = []
    for pid in all_ids:
        if pid not in CHECKS:
            na.append({"property_id": pid, "reason": NOT_YET.get(pid, "check not built yet in this session (planned with the same technique, see DESIGN.md section 6/%s); not a limit of the technique" % pid)})
    m = {
        "version": 1,
        "setup_cmd": "./setup.sh",
        "hooks": {
            "guard": "verif",
            "enable": "no hooks are needed: every check drives clover through its public API (store decorators via clover.OpenWithStore); the harness module replaces github.com/ostafen/clover/v2 by /repo and is rebuilt by every check",
            "baseline_off_cmd": "cd /repo && GOFLAGS=-mod=mod GOPROXY=off GOSUMDB=off GOTOOLCHAIN=local go test -json -vet=off -count=1 -timeout 25m ./...",
            "source_commits": [],
            "add_only": True,
        },
        "engines": [
            {"name": "harness", "path": "/verif/harness", "serves_properties": sorted(CHECKS),
             "kind_free_text": "Go module (rapid v1.3.0): reference model, generators, interpreters, store decorators, one TestCxx per property; driver /verif/check shards, replays regressions and known-finding probes, merges evidence"},
        ],
        "checks": checks,
        "not_applicable": na,
        "notes": "All changes to /repo are unguarded 'fix:' commits (see known_findings.json); there are no instrumentation hooks. Exit codes of ./check: 0 held, 1 VIOLATION, 2 inconclusive (build failure, worker death).",
    }
    with open(os.path.join(ROOT, "MANIFEST.json"), "w") as f:
        json.dump(m, f, indent=1)
    print("claimed:", sorted(CHECKS))


if __name__ == "__main__":
    main()
