#!/usr/bin/env python3
"""Regenerates /verif/MANIFEST.json from the table below."""
import json, os

ROOT = os.path.dirname(os.path.dirname(os.path.abspath(__file__)))

TRUST = ("Trusted base: the reference model in harness/model (written from the property statements and the README, "
         "independent of clover's code), the interpreters in harness/run, rapid v1.3.0, the Go toolchain. "
         "Verdict = held on everything explored; no claim of absence.")

CHECKS = {
    "C01": dict(
        technique="model-based stateful property testing (rapid state machine vs reference evaluator, delta-debugged replays)",
        text="Generated histories of every write operation over several collections (indexes absent, created before or after the data) on bbolt (quick) and bbolt+badger (thorough); every FindAll/ForEach/FindById is compared with an independent reference evaluator over the model's live documents, with type-strict document equality and a tie-aware oracle for sorted windows. Exploration is the right level: the property quantifies over histories x documents x criteria trees, which can only be sampled; the generator is built to hit the planner's cells (Or/Not nesting, nil and field-reference operands, mixed types, index on the filtered field).",
        design="6/C01"),
}

NOT_YET = {}


def main():
    checks = []
    for pid in sorted(CHECKS):
        c = CHECKS[pid]
        checks.append({
            "property_id": pid,
            "quick_cmd": "./check %s --tier quick" % pid,
            "thorough_cmd": "./check %s --tier thorough" % pid,
            "evidence_file": "/verif/evidence/%s.json" % pid,
            "replay_cmd_template": "./check %s --replay {path}" % pid,
            "engine": c.get("engine", "harness"),
            "level_claimed": {"category": c.get("level", "exploration"), "text": c["text"], "design_ref": "DESIGN.md section " + c["design"]},
            "level_note": c.get("note", TRUST),
            "technique": c["technique"],
        })
    all_ids = ["C%02d" % i for i in range(1, 21)]
    na = []
    for pid in all_ids:
        if pid not in CHECKS:
            na.append({"property_id": pid, "reason": NOT_YET.get(pid, "check not built yet in this session (planned with the same technique, see DESIGN.md section 6/%s); not a limit of the technique" % pid)})
    m = {
        "version": 1,
        "setup_cmd": "./setup.sh",
        "hooks": {
            "guard": "verif",
            "enable": "no hooks are needed: every check drives clover through its public API (store decorators via clover.OpenWithStore); the harness module replaces github.com/ostafen/clover/v2 by /repo and is rebuilt by every check",
            "baseline_off_cmd": "cd /repo && GOFLAGS=-mod=mod GOPROXY=off GOSUMDB=off GOTOOLCHAIN=local go test -json -vet=off -count=1 -timeout 25m ./...",
            "source_commits": [],
            "add_only": True,
        },
        "engines": [
            {"name": "harness", "path": "/verif/harness", "serves_properties": sorted(CHECKS),
             "kind_free_text": "Go module (rapid v1.3.0): reference model, generators, interpreters, store decorators, one TestCxx per property; driver /verif/check shards, replays regressions and known-finding probes, merges evidence"},
        ],
        "checks": checks,
        "not_applicable": na,
        "notes": "All changes to /repo are unguarded 'fix:' commits (see known_findings.json); there are no instrumentation hooks. Exit codes of ./check: 0 held, 1 VIOLATION, 2 inconclusive (build failure, worker death).",
    }
    with open(os.path.join(ROOT, "MANIFEST.json"), "w") as f:
        json.dump(m, f, indent=1)
    print("claimed:", sorted(CHECKS))


if __name__ == "__main__":
    main()
