#!/usr/bin/env python3
import json,sys
d=json.load(open(sys.argv[1]))
w=int(sys.argv[2]) if len(sys.argv)>2 else 700
if d.get('fail'): print(d['fail']['property'], d['fail']['clause'], d['fail']['detail'][:w])
c=d['case']
if isinstance(c,dict) and 'ops' in c:
    print('backend', c.get('backend'))
    for op in c['ops']: print(json.dumps(op)[:w])
else:
    print(json.dumps(c)[:4000])
