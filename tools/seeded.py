#!/usr/bin/env python3
"""Confirm a sub-agent's mutation and run the checks against it.

  tools/seeded.py <dir-with-patch.diff+demo_test.go+meta.json> <seeded-id> <property> [more properties to run]

1. in a fresh scratch worktree of /repo (under /tmp): apply the patch, run the pinned suite
   (must still pass), run the demonstration (must fail); revert, run the demonstration (must pass);
2. apply the patch to /repo, run ./check <property> --tier quick (and the extra ones), revert;
3. copy patch, demo and an augmented meta.json to /verif/seeded/<seeded-id>/.
"""
import json, os, shutil, subprocess, sys, tempfile

ENV = dict(os.environ, GOFLAGS='-mod=mod', GOPROXY='off', GOSUMDB='off', GOTOOLCHAIN='local')


def sh(cmd, cwd=None, timeout=1800):
    p = subprocess.run(cmd, shell=True, cwd=cwd, env=ENV, stdout=subprocess.PIPE, stderr=subprocess.STDOUT, text=True, timeout=timeout)
    return p.returncode, p.stdout


def main():
    src, sid, prop = sys.argv[1], sys.argv[2], sys.argv[3]
    extra = sys.argv[4:]
    meta = json.load(open(os.path.join(src, 'meta.json')))
    patch = os.path.abspath(os.path.join(src, 'patch.diff'))
    demo = os.path.abspath(os.path.join(src, 'demo_test.go'))
    # every demonstration is a test file of package clover_test at the repository root; the
    # command is derived from the test functions it defines (the agents' free-text commands vary)
    import re
    loc = './zz_demo_test.go'
    names = re.findall(r'^func (Test\w+)\(', open(demo).read(), re.M)
    cmd = "go test -vet=off -count=1 -timeout 600s -run '^(%s)$' ." % '|'.join(names)
    meta['demo_location'] = loc + ' (package clover_test, repository root)'
    meta['demo_cmd'] = 'GOFLAGS=-mod=mod GOPROXY=off GOSUMDB=off GOTOOLCHAIN=local ' + cmd
    wt = tempfile.mkdtemp(prefix='seedwt-', dir='/tmp')
    os.rmdir(wt)
    rc, out = sh('git -C /repo worktree add -q --detach %s HEAD' % wt)
    report = {}
    try:
        rc, out = sh('git apply %s' % patch, cwd=wt)
        report['applies'] = rc == 0
        if rc != 0:
            print('PATCH DOES NOT APPLY', out)
            return 1
        rc, out = sh('go build ./...', cwd=wt)
        report['builds'] = rc == 0
        base = '/verif/tools/baseline.py'
        rc, out = sh('python3 %s %s' % (base, wt))
        report['suite_passes_with_patch'] = rc == 0 and 'newly failing' not in out
        print(out.strip().splitlines()[-1] if out.strip() else '')
        dst = os.path.join(wt, loc)
        os.makedirs(os.path.dirname(dst), exist_ok=True)
        shutil.copy(demo, dst)
        rc, out = sh(cmd, cwd=wt, timeout=900)
        report['demo_fails_with_patch'] = rc != 0
        report['demo_output_with_patch'] = out[-800:]
        sh('git apply -R %s' % patch, cwd=wt)
        rc, out = sh(cmd, cwd=wt, timeout=900)
        report['demo_passes_without_patch'] = rc == 0
        if rc != 0:
            report['demo_output_without_patch'] = out[-800:]
    finally:
        sh('git -C /repo worktree remove --force %s' % wt)
    ok = all(report.get(k) for k in ('applies', 'builds', 'suite_passes_with_patch', 'demo_fails_with_patch', 'demo_passes_without_patch'))
    print('confirmed' if ok else 'NOT CONFIRMED', {k: v for k, v in report.items() if not k.startswith('demo_output')})
    if not ok:
        print(report.get('demo_output_with_patch', '')[-500:])
        print(report.get('demo_output_without_patch', '')[-500:])
        return 1
    # run the checks against the mutated /repo
    results = {}
    rc, out = sh('git -C /repo diff --quiet')
    if rc != 0:
        print('/repo dirty, refusing')
        return 2
    try:
        rc, out = sh('git -C /repo apply %s' % patch)
        for p in [prop] + extra:
            rc, out = sh('./check %s --tier quick' % p, cwd='/verif', timeout=3600)
            lines = [l for l in out.splitlines() if l.startswith(('VIOLATION', 'OK', 'INCONCLUSIVE', 'BUILD'))]
            detail = ''
            ol = out.splitlines()
            for i, l in enumerate(ol):
                if l.startswith('VIOLATION') and i + 1 < len(ol):
                    detail = ol[i + 1].strip()[:400]
                    break
            results[p] = {'exit': rc, 'first': (lines[0][:200] if lines else out[-300:]), 'detail': detail}
            print(p, rc, results[p]['first'], '|', detail[:200])
    finally:
        sh('git -C /repo checkout -- .')
        sh('git -C /repo clean -fdq')
    dst = os.path.join('/verif/seeded', sid)
    os.makedirs(dst, exist_ok=True)
    shutil.copy(patch, os.path.join(dst, 'patch.diff'))
    shutil.copy(demo, os.path.join(dst, 'demo_test.go'))
    meta.update({'id': sid, 'breaks_property': prop, 'confirmation': {k: v for k, v in report.items() if not k.startswith('demo_output')},
                 'confirmed_by': 'tools/seeded.py: scratch worktree - patch applies, builds, pinned suite passes, demo fails with / passes without the patch',
                 'checks_run_against_it': results,
                 'caught': [p for p, r in results.items() if r['exit'] == 1]})
    json.dump(meta, open(os.path.join(dst, 'meta.json'), 'w'), indent=1)
    return 0


if __name__ == '__main__':
    sys.exit(main())
