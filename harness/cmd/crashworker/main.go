// crashworker replays an operation program on an on-disk database and is killed by the C05
// engine: by itself inside a chosen store call, by strace at a chosen write/sync syscall,
// or by the parent at an arbitrary instant. It appends "S <i>" before and "A <i>" after
// every operation to the log file with unbuffered writes.
package main

import (
	"encoding/json"
	"flag"
	"fmt"
	"os"
	"path/filepath"
	"runtime"
	"syscall"

	"verif/harness/cs"
	"verif/harness/run"
)

func main() {
	backend := flag.String("backend", "bbolt", "")
	dir := flag.String("dir", "", "")
	program := flag.String("program", "", "")
	logPath := flag.String("log", "", "")
	from := flag.Int("from", 0, "first operation to execute (earlier ones were executed by a previous worker)")
	killOp := flag.Int("kill-op", -1, "operation during which the worker kills itself")
	killCall := flag.Int64("kill-call", 0, "1-based fallible store call of that operation at which to die")
	killAfter := flag.Bool("kill-after-commit", false, "die after the inner commit of that call succeeded instead of before the call")
	pin := flag.Bool("pin", false, "lock the main goroutine to its OS thread")
	flag.Parse()
	if *pin {
		runtime.LockOSThread()
	}
	b, err := os.ReadFile(*program)
	if err != nil {
		fmt.Fprintln(os.Stderr, "program:", err)
		os.Exit(3)
	}
	var ops []cs.Op
	if err := json.Unmarshal(b, &ops); err != nil {
		fmt.Fprintln(os.Stderr, "program:", err)
		os.Exit(3)
	}
	logf, err := os.OpenFile(*logPath, os.O_CREATE|os.O_WRONLY|os.O_APPEND, 0o644)
	if err != nil {
		fmt.Fprintln(os.Stderr, "log:", err)
		os.Exit(3)
	}
	h, err := run.Open(*backend, *dir)
	if err != nil {
		fmt.Fprintln(os.Stderr, "open:", err)
		os.Exit(4)
	}
	logf.WriteString("O\n")
	cur := -1
	die := func() { syscall.Kill(os.Getpid(), syscall.SIGKILL); select {} }
	h.Deco.OnCall = func(kind int, seq int64) {
		if cur == *killOp && !*killAfter && seq == *killCall {
			die()
		}
	}
	h.Deco.AfterCommit = func(seq int64) {
		if cur == *killOp && *killAfter && seq == *killCall {
			die()
		}
	}
	for i := *from; i < len(ops); i++ {
		if ops[i].Kind == "import" && (ops[i].Content != "" || ops[i].Raw != nil) {
			// the file the reference run imported is gone with its session: write it again, here
			fdir := *dir + ".files"
			os.MkdirAll(fdir, 0o755)
			ops[i].Path = filepath.Join(fdir, filepath.Base(ops[i].Path))
			content := []byte(ops[i].Content)
			if ops[i].Raw != nil {
				content = ops[i].Raw
			}
			os.WriteFile(ops[i].Path, content, 0o644)
		}
		cur = i
		fmt.Fprintf(logf, "S %d\n", i)
		h.Deco.Arm(0, false)
		out := run.ExecDirect(h.DB, &ops[i])
		h.Deco.Disarm()
		e := out.Err
		if len(e) > 60 {
			e = e[:60]
		}
		fmt.Fprintf(logf, "A %d %q\n", i, e)
	}
	h.Close()
	logf.WriteString("C\n")
}
