// Package gen holds the rapid generators. Every random choice goes through rapid so that
// shrinking and seeds work; generators produce plain case data (package cs).
package gen

import (
	"fmt"
	"math"
	"strings"
	"time"

	"pgregory.net/rapid"

	"verif/harness/cs"
)

// ValCfg selects the value domain of a case.
type ValCfg struct {
	Wide      bool // integers of any magnitude and no floats (otherwise |n| <= 2^53 mixed with floats)
	NonUTF8   bool // strings may hold invalid UTF-8
	Inf       bool // +-Inf allowed
	TimeWide  bool // times 1678..2262 instead of 1970..2200
	TimeFar   bool // additionally the zero time, 1066, 1600, 2300 and 9999 (no index, no JSON involved)
	MinuteTZ  bool // whole-minute zone offsets only
	NoTime    bool
	MaxDepth  int  // nesting depth of containers (0 = scalars only)
	LongStr   bool // occasionally strings of up to 300 bytes
	JSONSafe  bool // JSON-representable: UTF-8 strings, |n| <= 2^53, finite
	NoNegZero bool
}

var (
	intsMixed = []int64{0, 1, -1, 2, -2, 7, -7, 1 << 31, -(1 << 31), 1<<53 - 1, -(1<<53 - 1), 1 << 53, -(1 << 53), 3, 5, 10, -10}
	intsWide  = []int64{math.MinInt64, math.MinInt64 + 1, math.MaxInt64, 1<<53 + 1, -(1<<53 + 1), 1 << 62, -(1 << 62), math.MaxInt64 - 1}
	uintsMix  = []uint64{0, 1, 2, 7, 1 << 53, 3, 5, 10}
	uintsWide = []uint64{1<<63 - 1, 1 << 63, 1<<63 + 5, math.MaxUint64, math.MaxUint64 - 1}
	floats    = []float64{0, math.Copysign(0, -1), 0.5, -0.5, 1, -1, 1.5, -1.5, 7, 1e-300, 1e300, -1e300, math.MaxFloat64, -math.MaxFloat64,
		math.SmallestNonzeroFloat64, 2, -2, 2.5, 6.5, 7.5, 3, 5, 10, -7, float64(1 << 31), float64(1 << 53), -float64(1 << 53), float64(1<<53 - 1)}
	stringsPool = []string{"", "a", "ab", "b", "a\x00", "a\x00b", "é", "$x", "abc", "B", "aa", "ba", "0", "~"}
	stringsBad  = []string{"a\xff", "\xff", "\xfe\xff", "a\xffb", "\xc3", "a\xff\xff", "ab\xffz"}
	zones       = []int{0, 2 * 3600, -(7*3600 + 1800), 3723, -3600}
	zonesMinute = []int{0, 2 * 3600, -(7*3600 + 1800), 3600 + 120, -3600}
)

// base instants (seconds, nanoseconds)
var instants = [][2]int64{
	{0, 0},                  // 1970-01-01
	{981173106, 789},        // 2001-02-03T04:05:06.000000789Z
	{2147483647, 0},         // 2038-01-19
	{7258032000, 0},         // 2199-12-31 (approx)
	{981173106, 0},          //
	{981173107, 999999999},  //
	{1, 0},                  //
	{1700000000, 500000000}, //
}

var instantsWide = [][2]int64{
	{-9214560000, 0}, // 1678
	{9214646400, 0},  // 2262
	{-1, 999999999},  // just before the epoch
	{-2208988800, 0}, // 1900
	{-9223372036, 0}, // near the UnixNano lower limit
	{9223372036, 0},  // near the UnixNano upper limit
}

// far-away instants: outside the UnixNano-representable range
var instantsFar = [][2]int64{
	{-62135596800, 0},         // time.Time{} (year 1)
	{-28526342400, 5},         // 1066
	{-11676096000, 0},         // 1600
	{10413792000, 999},        // 2300
	{253402300799, 999999999}, // 9999-12-31T23:59:59.999999999
}

func Time(cfg ValCfg) *rapid.Generator[interface{}] {
	return rapid.Custom(func(t *rapid.T) interface{} {
		pool := instants
		if cfg.TimeWide && rapid.IntRange(0, 2).Draw(t, "twide") == 0 {
			pool = instantsWide
		}
		if cfg.TimeFar && rapid.IntRange(0, 3).Draw(t, "tfar") == 0 {
			pool = instantsFar
		}
		in := rapid.SampledFrom(pool).Draw(t, "instant")
		sec, nsec := in[0], in[1]
		if rapid.IntRange(0, 3).Draw(t, "toff") == 0 {
			sec += int64(rapid.IntRange(0, 3).Draw(t, "dsec"))
		}
		zs := zones
		if cfg.MinuteTZ || cfg.JSONSafe {
			zs = zonesMinute
		}
		return cs.MkTime(sec, nsec, rapid.SampledFrom(zs).Draw(t, "zone"))
	})
}

func Int(cfg ValCfg) *rapid.Generator[interface{}] {
	return rapid.Custom(func(t *rapid.T) interface{} {
		switch rapid.IntRange(0, 3).Draw(t, "ik") {
		case 0:
			return int64(rapid.IntRange(-4, 12).Draw(t, "small"))
		case 1:
			if cfg.Wide {
				return rapid.SampledFrom(intsWide).Draw(t, "iw")
			}
		}
		return rapid.SampledFrom(intsMixed).Draw(t, "im")
	})
}

func Uint(cfg ValCfg) *rapid.Generator[interface{}] {
	return rapid.Custom(func(t *rapid.T) interface{} {
		if cfg.Wide && rapid.IntRange(0, 1).Draw(t, "uk") == 0 {
			return rapid.SampledFrom(uintsWide).Draw(t, "uw")
		}
		return rapid.SampledFrom(uintsMix).Draw(t, "um")
	})
}

func Float(cfg ValCfg) *rapid.Generator[interface{}] {
	return rapid.Custom(func(t *rapid.T) interface{} {
		if cfg.Inf && rapid.IntRange(0, 9).Draw(t, "inf") == 0 {
			return math.Inf(rapid.SampledFrom([]int{-1, 1}).Draw(t, "infs"))
		}
		if rapid.IntRange(0, 3).Draw(t, "fk") == 0 {
			return float64(rapid.IntRange(-4, 12).Draw(t, "fsmall")) + rapid.SampledFrom([]float64{0, 0.5}).Draw(t, "half")
		}
		f := rapid.SampledFrom(floats).Draw(t, "f")
		if (cfg.NoNegZero || cfg.JSONSafe) && f == 0 {
			return float64(0)
		}
		if cfg.JSONSafe && (f > 1<<53 || f < -(1<<53) || (f != 0 && f < 1e-9 && f > -1e-9)) {
			return 1.5
		}
		return f
	})
}

func String(cfg ValCfg) *rapid.Generator[interface{}] {
	return rapid.Custom(func(t *rapid.T) interface{} {
		k := rapid.IntRange(0, 19).Draw(t, "sk")
		switch {
		case k == 0 && cfg.NonUTF8 && !cfg.JSONSafe:
			return rapid.SampledFrom(stringsBad).Draw(t, "sbad")
		case k == 1 && cfg.LongStr:
			n := rapid.IntRange(1, 300).Draw(t, "slen")
			if rapid.IntRange(0, 2).Draw(t, "slen-pow2") == 0 {
				// lengths around the powers of two a size limit would be set at (Near() then yields
				// neighbours sharing all of these bytes)
				n = rapid.SampledFrom([]int{255, 256, 257, 1023, 1024, 1025, 1026, 511, 513, 2049, 4097}).Draw(t, "slen2")
			}
			c := rapid.SampledFrom([]string{"a", "b", "z"}).Draw(t, "sch")
			return strings.Repeat(c, n)
		case k == 2:
			return rapid.StringMatching(`[abé]{1,4}`).Draw(t, "srand")
		}
		return rapid.SampledFrom(stringsPool).Draw(t, "s")
	})
}

// Scalar draws nil, bool, number, string or time.
func Scalar(cfg ValCfg) *rapid.Generator[interface{}] {
	return rapid.Custom(func(t *rapid.T) interface{} {
		k := rapid.IntRange(0, 11).Draw(t, "kind")
		switch k {
		case 0:
			return nil
		case 1:
			return rapid.Bool().Draw(t, "b")
		case 2, 3, 4:
			return Int(cfg).Draw(t, "i")
		case 5:
			return Uint(cfg).Draw(t, "u")
		case 6, 7:
			if cfg.Wide {
				return Int(cfg).Draw(t, "i")
			}
			return Float(cfg).Draw(t, "f")
		case 8, 9:
			return String(cfg).Draw(t, "s")
		case 10:
			if cfg.NoTime {
				return String(cfg).Draw(t, "s")
			}
			return Time(cfg).Draw(t, "t")
		}
		return Int(cfg).Draw(t, "i")
	})
}

var objKeys = []string{"a", "b", "ab", "c", "", "A", "B"} // "A"/"a": keys that differ only in case are different keys

// Value draws a scalar or a container nested up to depth levels.
func Value(cfg ValCfg, depth int) *rapid.Generator[interface{}] {
	return rapid.Custom(func(t *rapid.T) interface{} {
		if depth <= 0 || rapid.IntRange(0, 3).Draw(t, "cont") != 0 {
			return Scalar(cfg).Draw(t, "sc")
		}
		if rapid.Bool().Draw(t, "arr") {
			return Array(cfg, depth).Draw(t, "a")
		}
		return Object(cfg, depth).Draw(t, "o")
	})
}

func Array(cfg ValCfg, depth int) *rapid.Generator[interface{}] {
	return rapid.Custom(func(t *rapid.T) interface{} {
		n := rapid.IntRange(0, 4).Draw(t, "alen")
		a := make([]interface{}, n)
		for i := range a {
			a[i] = Value(cfg, depth-1).Draw(t, "e")
		}
		return a
	})
}

func Object(cfg ValCfg, depth int) *rapid.Generator[interface{}] {
	return rapid.Custom(func(t *rapid.T) interface{} {
		n := rapid.IntRange(0, 3).Draw(t, "olen")
		m := map[string]interface{}{}
		for i := 0; i < n; i++ {
			k := rapid.SampledFrom(objKeys).Draw(t, "k")
			m[k] = Value(cfg, depth-1).Draw(t, "v")
		}
		return m
	})
}

// Id returns the k-th id of the fixed pool of canonical UUIDs.
func Id(k int) string {
	switch k {
	case 22: // the two extreme canonical UUIDs are valid caller-supplied ids like any other
		return "ffffffff-ffff-ffff-ffff-ffffffffffff"
	case 23:
		return "00000000-0000-0000-0000-000000000000"
	}
	return fmt.Sprintf("%08x-0000-4000-8000-%012x", k, k)
}

// UpperId is the upper-case spelling of Id(k) (a different key).
func UpperId(k int) string { return strings.ToUpper(Id(k)) }

// MalformedIds are rejected by validation.
var MalformedIds = []interface{}{"abc", "0000000-0000-4000-8000-000000000001", "00000000-0000-4000-8000-0000000000011",
	"0000000g-0000-4000-8000-000000000001", "00000000_0000_4000_8000_000000000001", int64(5), true, nil, map[string]interface{}{}}

// DocCfg shapes generated documents.
type DocCfg struct {
	Val       ValCfg
	Fields    []string // subset of the field alphabet to use
	PAbsent   int      // a field is absent with probability 1/PAbsent (0 = never)
	Pad       int      // size of a "pad" string field (0 = none)
	ExpiresAt bool     // occasionally a valid _expiresAt
	DottedKey bool     // occasionally a top-level field whose name contains a dot ("d.k", a plain key, not a path)
}

var AllFields = []string{"x", "y", "xy", "n", "s", "t", "u"}

// Fields draws the field map of a document without _id. uniq feeds the unique field u.
func Fields(cfg DocCfg, uniq int64) *rapid.Generator[cs.Doc] {
	return rapid.Custom(func(t *rapid.T) cs.Doc {
		d := cs.Doc{}
		fs := cfg.Fields
		if fs == nil {
			fs = AllFields
		}
		for _, f := range fs {
			if f != "u" && cfg.PAbsent > 0 && rapid.IntRange(1, cfg.PAbsent).Draw(t, "abs_"+f) == 1 {
				continue
			}
			switch f {
			case "x":
				d[f] = Value(cfg.Val, cfg.Val.MaxDepth).Draw(t, "x")
			case "y", "xy":
				d[f] = Scalar(cfg.Val).Draw(t, f)
			case "n":
				if rapid.IntRange(0, 5).Draw(t, "nscalar") == 0 {
					d[f] = Scalar(cfg.Val).Draw(t, "n")
				} else {
					m := map[string]interface{}{}
					if rapid.IntRange(0, 4).Draw(t, "na") != 0 {
						m["a"] = Scalar(cfg.Val).Draw(t, "n.a")
					}
					if rapid.IntRange(0, 2).Draw(t, "nb") != 0 {
						m["b"] = Scalar(cfg.Val).Draw(t, "n.b")
					}
					d[f] = m
				}
			case "s":
				if rapid.IntRange(0, 5).Draw(t, "sscalar") == 0 {
					d[f] = Scalar(cfg.Val).Draw(t, "s")
				} else {
					n := rapid.IntRange(0, 3).Draw(t, "slen")
					a := make([]interface{}, n)
					for i := range a {
						a[i] = Scalar(cfg.Val).Draw(t, "se")
					}
					d[f] = a
				}
			case "t":
				if cfg.Val.NoTime || rapid.IntRange(0, 5).Draw(t, "tscalar") == 0 {
					d[f] = Scalar(cfg.Val).Draw(t, "t")
				} else {
					d[f] = Time(cfg.Val).Draw(t, "t")
				}
			case "u":
				d[f] = uniq
			default:
				d[f] = Scalar(cfg.Val).Draw(t, "field-"+f)
			}
		}
		if _, isObj := d["n"].(map[string]interface{}); !isObj && containsStr(fs, "n") {
			// n is absent or not an object: a top-level field named like the leaf of the path n.a
			// (n.b) is a decoy that a path lookup must not fall back to
			if rapid.IntRange(0, 2).Draw(t, "decoy-a") == 0 {
				d["a"] = Scalar(cfg.Val).Draw(t, "decoy-a-val")
			}
			if rapid.IntRange(0, 3).Draw(t, "decoy-b") == 0 {
				d["b"] = Scalar(cfg.Val).Draw(t, "decoy-b-val")
			}
		}
		if cfg.Pad > 0 {
			d["pad"] = strings.Repeat("p", cfg.Pad)
		}
		if cfg.DottedKey && rapid.IntRange(0, 5).Draw(t, "dotted") == 0 {
			d["d.k"] = Scalar(cfg.Val).Draw(t, "dottedval")
		}
		if cfg.ExpiresAt && rapid.IntRange(0, 15).Draw(t, "exp") == 0 {
			d["_expiresAt"] = time.Unix(7258032000, 0).UTC()
		}
		return d
	})
}

func containsStr(xs []string, x string) bool {
	for _, y := range xs {
		if y == x {
			return true
		}
	}
	return false
}
