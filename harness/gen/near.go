package gen

import (
	"math"
	"time"

	"pgregory.net/rapid"

	"verif/harness/cs"
)

// Near draws a value related to v: the same number in another representation, a
// neighbour, a prefix/extension of a string or container, the same instant in another
// zone. It falls back to an unrelated value.
func Near(cfg ValCfg, v interface{}) *rapid.Generator[interface{}] {
	return rapid.Custom(func(t *rapid.T) interface{} {
		k := rapid.IntRange(0, 5).Draw(t, "near")
		switch x := v.(type) {
		case int64:
			switch k {
			case 0:
				if x >= 0 {
					return uint64(x)
				}
			case 1:
				if !cfg.Wide && x >= -(1<<53) && x <= 1<<53 {
					return float64(x)
				}
			case 2:
				if x < math.MaxInt64 && (cfg.Wide || x < 1<<53) {
					return x + 1
				}
			case 3:
				if x > math.MinInt64 && (cfg.Wide || x > -(1<<53)) {
					return x - 1
				}
			case 4:
				if !cfg.Wide && x > -(1<<52) && x < 1<<52 {
					return float64(x) + 0.5
				}
			}
			return x
		case uint64:
			switch k {
			case 0:
				if x <= math.MaxInt64 {
					return int64(x)
				}
			case 1:
				if !cfg.Wide && x <= 1<<53 {
					return float64(x)
				}
			case 2:
				if x < math.MaxUint64 && (cfg.Wide || x < 1<<53) {
					return x + 1
				}
			case 3:
				if x > 0 {
					return x - 1
				}
			}
			return x
		case float64:
			switch k {
			case 0:
				if x == math.Trunc(x) && math.Abs(x) <= 1<<53 {
					return int64(x)
				}
			case 1:
				if x == math.Trunc(x) && x >= 0 && x <= 1<<53 {
					return uint64(x)
				}
			case 2:
				if n := math.Nextafter(x, math.Inf(1)); !math.IsInf(n, 0) || cfg.Inf {
					return n
				}
			case 3:
				if n := math.Nextafter(x, math.Inf(-1)); !math.IsInf(n, 0) || cfg.Inf {
					return n
				}
			case 4:
				if x == 0 {
					return math.Copysign(0, -1)
				}
				return -x
			}
			return x
		case string:
			switch k {
			case 0:
				return x + "\x00"
			case 1:
				return x + "a"
			case 2:
				if len(x) > 0 {
					return x[:len(x)-1]
				}
			case 3:
				if cfg.NonUTF8 {
					return x + "\xff"
				}
			}
			return x
		case bool:
			if k < 3 {
				return !x
			}
			return x
		case time.Time:
			switch k {
			case 0:
				return x.In(time.FixedZone("", 5*3600))
			case 1:
				return x.Add(time.Nanosecond)
			case 2:
				return x.Add(-time.Nanosecond)
			case 3:
				return x.UTC()
			}
			return x
		case []interface{}:
			c := cs.Clone(x).([]interface{})
			switch k {
			case 0:
				return append(c, Scalar(cfg).Draw(t, "app"))
			case 1:
				if len(c) > 0 {
					return c[:len(c)-1]
				}
			case 2:
				if len(c) > 0 {
					i := rapid.IntRange(0, len(c)-1).Draw(t, "ai")
					c[i] = Near(cfg, c[i]).Draw(t, "ae")
					return c
				}
			case 3:
				return append(c, nil)
			}
			return c
		case map[string]interface{}:
			c := cs.Clone(x).(map[string]interface{})
			switch k {
			case 0:
				c[rapid.SampledFrom(objKeys).Draw(t, "mk")] = Scalar(cfg).Draw(t, "mv")
				return c
			case 1:
				for _, key := range cs.SortedKeys(c) {
					delete(c, key)
					break
				}
				return c
			case 2:
				ks := cs.SortedKeys(c)
				if len(ks) > 0 {
					key := rapid.SampledFrom(ks).Draw(t, "mk2")
					c[key] = Near(cfg, c[key]).Draw(t, "mv2")
				}
				return c
			}
			return c
		}
		return Value(cfg, 1).Draw(t, "other")
	})
}
