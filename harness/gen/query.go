package gen

import (
	"math"
	"regexp"

	"pgregory.net/rapid"

	"verif/harness/cs"
)

// CritEnv is what a criteria generator knows about its target.
type CritEnv struct {
	Val        ValCfg
	Fields     []string                 // candidate leaf fields
	Hot        []string                 // fields to favour (e.g. the indexed ones)
	Values     []interface{}            // values present in the collection (to hit bounds exactly)
	ValuesOf   map[string][]interface{} // values present under each field (pairs on one field hit its own bounds)
	NoFieldRef bool                     // no Field()/"$name" operands
	NoFunc     bool
	NoLike     bool
	Bad        bool // occasionally an operand that cannot be normalised
	GoKinds    bool // wrap numeric literals in arbitrary Go numeric kinds
	MaxDepth   int
	OnlyCmp    bool // only eq/neq/gt/gte/lt/lte leaves
	// ContainsOwn: Contains leaves often take their operands from the elements of one array stored
	// under the very field, with repetition (the same element twice, or once per Go numeric
	// kind) and with more operands than the array has elements
	ContainsOwn bool
}

var LeafFields = []string{"x", "y", "xy", "n", "n.a", "n.b", "s", "t", "u", "_id", "zz"}

var likePatterns = []string{"", "a", "^a", "a$", ".*b.*", "[", "(a|b)+", "^$"}

func (e *CritEnv) field(t *rapid.T) string {
	if len(e.Hot) > 0 && rapid.IntRange(0, 9).Draw(t, "hot") < 7 {
		return rapid.SampledFrom(e.Hot).Draw(t, "hotfield")
	}
	fs := e.Fields
	if fs == nil {
		fs = LeafFields
	}
	return rapid.SampledFrom(fs).Draw(t, "field")
}

// exactKinds lists the Go numeric kinds that represent v exactly.
func exactKinds(v interface{}) []string {
	ks := []string{""}
	fits := func(lo, hi float64, x float64) bool { return x >= lo && x <= hi && x == math.Trunc(x) }
	var x float64
	isInt := false
	switch n := v.(type) {
	case int64:
		x, isInt = float64(n), true
		if n > 1<<53 || n < -(1<<53) {
			return ks
		}
	case uint64:
		x, isInt = float64(n), true
		if n > 1<<53 {
			return ks
		}
	case float64:
		x = n
		if float64(float32(n)) == n {
			ks = append(ks, "float32")
		}
		ks = append(ks, "float64")
		return ks
	case []interface{}, map[string]interface{}:
		// "deep": the members of a container literal are supplied as int32 / uint32 / float32 where
		// that is exact (a caller's literal is rarely built from canonical types)
		return append(ks, "deep")
	default:
		return ks
	}
	if isInt {
		_, signed := v.(int64)
		if signed {
			ks = append(ks, "int64")
			if fits(math.MinInt32, math.MaxInt32, x) {
				ks = append(ks, "int", "int32")
			}
			if fits(math.MinInt16, math.MaxInt16, x) {
				ks = append(ks, "int16")
			}
			if fits(math.MinInt8, math.MaxInt8, x) {
				ks = append(ks, "int8")
			}
		} else {
			ks = append(ks, "uint64")
			if fits(0, math.MaxUint32, x) {
				ks = append(ks, "uint", "uint32")
			}
			if fits(0, math.MaxUint16, x) {
				ks = append(ks, "uint16")
			}
			if fits(0, math.MaxUint8, x) {
				ks = append(ks, "uint8")
			}
		}
	}
	return ks
}

// Operand draws an operand of a comparison leaf.
func (e *CritEnv) Operand(t *rapid.T) cs.Operand {
	k := rapid.IntRange(0, 19).Draw(t, "opk")
	if !e.NoFieldRef && k == 0 {
		return cs.Operand{Kind: "field", Name: e.field(t)}
	}
	if !e.NoFieldRef && k == 1 {
		return cs.Operand{Kind: "dollar", Name: e.field(t)}
	}
	if e.Bad && k == 2 {
		return cs.Operand{Kind: "bad"}
	}
	var v interface{}
	if len(e.Values) > 0 && k < 13 {
		v = cs.Clone(rapid.SampledFrom(e.Values).Draw(t, "present"))
	} else {
		v = Value(e.Val, 1).Draw(t, "lit")
	}
	o := cs.Operand{Kind: "lit", Lit: cs.V{X: v}}
	if e.GoKinds {
		ks := exactKinds(v)
		o.GoKind = rapid.SampledFrom(ks).Draw(t, "gokind")
	}
	return o
}

// Leaf draws one leaf criterion.
func (e *CritEnv) Leaf(t *rapid.T) *cs.Crit {
	f := e.field(t)
	ops := []string{"eq", "eq", "neq", "gt", "gte", "lt", "lte", "gt", "lte"}
	if !e.OnlyCmp {
		ops = append(ops, "in", "in", "contains", "exists", "notexists", "isnil", "istrue", "isfalse", "isnilornotexists")
		if !e.NoLike {
			ops = append(ops, "like")
		}
		if !e.NoFunc {
			ops = append(ops, "func")
		}
	}
	op := rapid.SampledFrom(ops).Draw(t, "op")
	c := &cs.Crit{Op: op, Field: f}
	switch op {
	case "eq", "neq", "gt", "gte", "lt", "lte":
		o := e.Operand(t)
		c.Arg = &o
	case "in", "contains":
		n := rapid.IntRange(0, 3).Draw(t, "nargs")
		c.Args = make([]cs.Operand, n)
		for i := range c.Args {
			c.Args[i] = e.Operand(t)
		}
		if e.ContainsOwn && op == "contains" {
			var arrays [][]interface{}
			for _, v := range e.ValuesOf[f] {
				if a, ok := v.([]interface{}); ok && len(a) > 0 {
					arrays = append(arrays, a)
				}
			}
			if len(arrays) > 0 && rapid.IntRange(0, 3).Draw(t, "contains-own") != 0 {
				a := arrays[rapid.IntRange(0, len(arrays)-1).Draw(t, "contains-own-array")]
				c.Args = make([]cs.Operand, rapid.IntRange(1, len(a)+2).Draw(t, "contains-own-n"))
				for i := range c.Args {
					v := cs.Clone(a[rapid.IntRange(0, len(a)-1).Draw(t, "contains-own-elem")])
					o := cs.Operand{Kind: "lit", Lit: cs.V{X: v}}
					if e.GoKinds {
						o.GoKind = rapid.SampledFrom(exactKinds(v)).Draw(t, "contains-own-gokind")
					}
					c.Args[i] = o
				}
			}
		}
	case "like":
		c.Pattern = rapid.SampledFrom(likePatterns).Draw(t, "pattern")
		if rapid.IntRange(0, 2).Draw(t, "fresh-pattern") == 0 {
			// a pattern that has (most likely) never been used before in this process
			c.Pattern = rapid.StringMatching(`[abé]{0,2}(\.\*|\|[a-c]{1,4}|[a-c]{1,3})`).Draw(t, "pattern-fresh")
		}
		if vs := e.ValuesOf[f]; len(vs) > 0 && rapid.IntRange(0, 2).Draw(t, "anchored-pattern") == 0 {
			// anchored at a literal prefix of a string stored under this very field (the shape a
			// planner could serve from an index range): "^" + the first 1-2 bytes, optionally ".*"
			if s, ok := rapid.SampledFrom(vs).Draw(t, "pattern-of").(string); ok && len(s) > 0 && s[0] < 0x80 {
				n := 1
				if len(s) > 1 && s[1] < 0x80 && rapid.Bool().Draw(t, "prefix2") {
					n = 2
				}
				c.Pattern = "^" + regexp.QuoteMeta(s[:n]) + rapid.SampledFrom([]string{"", ".*"}).Draw(t, "pattern-tail")
			}
		}
	case "func":
		c.Field = ""
		c.Func = rapid.SampledFrom([]string{"always", "hasY", "never", "xIsNumber", "xIsString"}).Draw(t, "func")
	}
	return c
}

// Crit draws a criteria tree of at most the given depth (negation chains do not count).
func (e *CritEnv) Crit(t *rapid.T, depth int) *cs.Crit {
	if rapid.IntRange(0, 11).Draw(t, "notchain") == 0 {
		// a chain of 2-3 negations around a sub-tree: double-negation removal is a planner cell
		c := e.crit(t, depth)
		for n := rapid.IntRange(2, 3).Draw(t, "nots"); n > 0; n-- {
			c = &cs.Crit{Op: "not", Sub: []*cs.Crit{c}}
		}
		return c
	}
	return e.crit(t, depth)
}

// pair draws two comparison leaves on the same field and the same operand, joined by And
// or Or (x == 5 or x > 5, x >= 5 and x <= 5, ...): shared bounds with different
// inclusiveness are a cell of the range planner.
func (e *CritEnv) pair(t *rapid.T) *cs.Crit {
	f := e.field(t)
	o := e.Operand(t)
	if vs := e.ValuesOf[f]; len(vs) > 0 && rapid.IntRange(0, 4).Draw(t, "pair-own-value") != 0 {
		// the shared bound is a value stored under this very field
		o = cs.Operand{Kind: "lit", Lit: cs.V{X: cs.Clone(rapid.SampledFrom(vs).Draw(t, "pair-own"))}}
	}
	cmp := []string{"eq", "neq", "gt", "gte", "lt", "lte"}
	mk := func(label string) *cs.Crit {
		oo := o
		if rapid.IntRange(0, 3).Draw(t, label+"-other") == 0 {
			oo = e.Operand(t)
		}
		return &cs.Crit{Op: rapid.SampledFrom(cmp).Draw(t, label), Field: f, Arg: &oo}
	}
	a, b := mk("pair-a"), mk("pair-b")
	if rapid.IntRange(0, 2).Draw(t, "pair-same-op") == 0 {
		b.Op = a.Op
	}
	if rapid.IntRange(0, 3).Draw(t, "pair-nil") == 0 {
		// a bound next to a test for nil on the same field (x < 5 and x == nil): the two ranges
		// meet in the nil-only range
		nilop := cs.Lit(nil)
		b.Arg = &nilop
		b.Op = rapid.SampledFrom([]string{"eq", "eq", "lte", "gte", "neq"}).Draw(t, "pair-nil-op")
	}
	if rapid.IntRange(0, 4).Draw(t, "pair-neg") == 0 {
		a = &cs.Crit{Op: "not", Sub: []*cs.Crit{a}}
	}
	return &cs.Crit{Op: rapid.SampledFrom([]string{"or", "and"}).Draw(t, "pair-conn"), Sub: []*cs.Crit{a, b}}
}

func (e *CritEnv) crit(t *rapid.T, depth int) *cs.Crit {
	if depth >= 2 && rapid.IntRange(0, 7).Draw(t, "pair") == 0 {
		return e.pair(t)
	}
	if depth <= 1 || rapid.IntRange(0, 2).Draw(t, "leaf") == 0 {
		return e.Leaf(t)
	}
	switch rapid.IntRange(0, 4).Draw(t, "conn") {
	case 0, 1:
		return &cs.Crit{Op: "and", Sub: []*cs.Crit{e.Crit(t, depth-1), e.Crit(t, depth-1)}}
	case 2, 3:
		return &cs.Crit{Op: "or", Sub: []*cs.Crit{e.Crit(t, depth-1), e.Crit(t, depth-1)}}
	}
	return &cs.Crit{Op: "not", Sub: []*cs.Crit{e.Crit(t, depth-1)}}
}

// QueryCfg shapes generated queries.
type QueryCfg struct {
	Env        CritEnv
	SortFields []string // candidates for sort options
	Size       int      // size of the collection (for skip/limit values)
	PCrit      int      // criteria present with probability (PCrit-1)/PCrit; 0 = always
	NoSort     bool
	NoWindow   bool
}

func intp(i int) *int { return &i }

// Query draws a query on coll.
func (qc *QueryCfg) Query(t *rapid.T, coll string) *cs.Query {
	q := &cs.Query{Coll: coll}
	if qc.PCrit == 0 || rapid.IntRange(1, qc.PCrit).Draw(t, "hascrit") != 1 {
		d := qc.Env.MaxDepth
		if d == 0 {
			d = 3
		}
		q.Crit = qc.Env.Crit(t, rapid.IntRange(1, d).Draw(t, "depth"))
	}
	if !qc.NoSort && rapid.IntRange(0, 2).Draw(t, "sort") == 0 {
		q.SortSet = true
		n := rapid.SampledFrom([]int{0, 1, 1, 1, 2, 3}).Draw(t, "nsort")
		fs := qc.SortFields
		if fs == nil {
			fs = LeafFields
		}
		for i := 0; i < n; i++ {
			f := rapid.SampledFrom(fs).Draw(t, "sortfield")
			if len(qc.Env.Hot) > 0 && rapid.IntRange(0, 1).Draw(t, "sorthot") == 0 {
				f = rapid.SampledFrom(qc.Env.Hot).Draw(t, "sorthotf")
			}
			q.Sort = append(q.Sort, cs.SortOpt{Field: f, Dir: rapid.SampledFrom([]int{-7, -1, 0, 1, 5, 1, -1, math.MinInt64, math.MaxInt64, -(1 << 62), 1 << 61, math.MinInt32}).Draw(t, "dir")})
		}
	}
	if !qc.NoWindow {
		sz := qc.Size
		if rapid.IntRange(0, 3).Draw(t, "hasskip") == 0 {
			q.Skip = intp(rapid.SampledFrom([]int{-3, 0, 1, 2, sz - 1, sz, sz + 3, 1, 2, math.MaxInt}).Draw(t, "skip"))
		}
		if rapid.IntRange(0, 3).Draw(t, "haslimit") == 0 {
			q.Limit = intp(rapid.SampledFrom([]int{-1, 0, 1, 2, sz, sz + 3, 1, 2, 3, math.MaxInt, math.MaxInt - 2}).Draw(t, "limit"))
		}
	}
	return q
}
