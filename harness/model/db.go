package model

import (
	"fmt"
	"regexp"
	"sort"
	"strings"
	"time"

	"verif/harness/cs"
)

// Coll is the model of one collection.
type Coll struct {
	Docs    map[string]cs.Doc
	Indexes map[string]bool
}

// DB is the reference state machine: Step consumes one (operation, outcome) pair,
// reports whether the outcome is admissible in the current state, and advances.
type DB struct {
	Colls  map[string]*Coll
	Closed bool
	// Files models exported files: path -> documents (as exported).
	Files map[string][]cs.Doc
	// Lenient switches (validity predicates instead of one expected answer).
	AllowIdRewrite bool // an update that changes _id may fail or re-key (C12 invariant enforced by the caller, then Resync)
	NeedResync     bool // set by Step when the post-state must be read back from the database
}

func New() *DB {
	return &DB{Colls: map[string]*Coll{}, Files: map[string][]cs.Doc{}}
}

func (m *DB) Clone() *DB {
	n := New()
	n.Closed = m.Closed
	n.AllowIdRewrite = m.AllowIdRewrite
	for name, c := range m.Colls {
		nc := &Coll{Docs: make(map[string]cs.Doc, len(c.Docs)), Indexes: map[string]bool{}}
		for id, d := range c.Docs {
			nc.Docs[id] = d // documents are never mutated in place
		}
		for f := range c.Indexes {
			nc.Indexes[f] = true
		}
		n.Colls[name] = nc
	}
	for p, f := range m.Files {
		n.Files[p] = f
	}
	return n
}

func (m *DB) CollNames() []string {
	ks := []string{}
	for k := range m.Colls {
		ks = append(ks, k)
	}
	sort.Strings(ks)
	return ks
}

func (c *Coll) IndexNames() []string {
	ks := []string{}
	for k := range c.Indexes {
		ks = append(ks, k)
	}
	sort.Strings(ks)
	return ks
}

func (c *Coll) Ids() []string {
	ks := make([]string, 0, len(c.Docs))
	for k := range c.Docs {
		ks = append(ks, k)
	}
	sort.Strings(ks)
	return ks
}

var uuidRe = regexp.MustCompile(`^[0-9a-fA-F]{8}-[0-9a-fA-F]{4}-[0-9a-fA-F]{4}-[0-9a-fA-F]{4}-[0-9a-fA-F]{12}$`)

// ValidId: canonical 36-character UUID text.
func ValidId(s string) bool { return uuidRe.MatchString(s) }

// DocValid mirrors the documented validity rules: _id is a UUID string, _expiresAt (if
// present) is a time.
func DocValid(d cs.Doc) bool {
	id, ok := d["_id"].(string)
	if !ok || !ValidId(id) {
		return false
	}
	if v, has := d["_expiresAt"]; has {
		if _, isTime := v.(time.Time); !isTime {
			return false
		}
	}
	return true
}

// needsId: Insert assigns an id when _id is missing or the empty string.
func needsId(d cs.Doc) bool {
	v, has := d["_id"]
	return !has || v == ""
}

func errMatches(got string, conds []string) string {
	// conds: the error conditions that hold ("any" = unspecific error). One condition with a
	// sentinel demands that sentinel; several demand just an error.
	if len(conds) == 0 {
		if got != "" {
			return "unexpected error " + got
		}
		return ""
	}
	if got == "" {
		return fmt.Sprintf("call succeeded but must fail (%v)", conds)
	}
	if strings.HasPrefix(got, "panic") || got == "hang" {
		return "call did not return normally: " + got
	}
	if len(conds) == 1 && conds[0] != "any" && got != conds[0] {
		return fmt.Sprintf("error is %q, expected %s", got, conds[0])
	}
	return ""
}

// ApplyUpdater computes the document an updater returns for d (nil = delete).
func ApplyUpdater(u *cs.Updater, d cs.Doc) cs.Doc {
	switch u.Kind {
	case "delete":
		return nil
	case "ident":
		return d
	case "set", "inplace":
		n := cs.CloneDoc(d)
		SetPath(n, u.Field, cs.Clone(u.Value.X))
		return n
	case "setmany":
		n := cs.CloneDoc(d)
		ks := make([]string, 0, len(u.Values))
		for k := range u.Values {
			ks = append(ks, k)
		}
		sort.Strings(ks)
		for _, k := range ks {
			SetPath(n, k, cs.Clone(u.Values[k].X))
		}
		return n
	case "poison":
		// like "set", but the document whose field u equals N gets an invalid _expiresAt: the whole
		// bulk operation must then fail and change nothing
		n := cs.CloneDoc(d)
		SetPath(n, u.Field, cs.Clone(u.Value.X))
		if uv, ok := d["u"].(int64); ok && uv == u.N {
			n["_expiresAt"] = "never"
		}
		return n
	case "incr":
		n := cs.CloneDoc(d)
		switch x := Get(n, u.Field).(type) {
		case int64:
			SetPath(n, u.Field, cs.Incr(x, u.N))
		case uint64:
			SetPath(n, u.Field, cs.Incr(int64(x), u.N))
		case float64:
			SetPath(n, u.Field, x+float64(u.N))
		}
		return n
	}
	panic("unknown updater " + u.Kind)
}

// Step checks out against the model for op (ids already resolved to literals) and
// advances the model. It returns "" or a description of the disagreement. Result
// documents of reads are verified too.
func (m *DB) Step(op *cs.Op, out *cs.Outcome) string {
	m.NeedResync = false
	if strings.HasPrefix(out.Err, "panic") || out.Err == "hang" {
		return "call did not return normally: " + out.Err
	}
	if out.ArgBad != "" {
		return "the call altered a document it was given: " + out.ArgBad
	}
	if strings.Contains(out.Err, "Txn is too big") {
		// badger refuses an operation that does not fit one transaction: legal, but only as a
		// failure without any effect (the state is left as it is; the checks that look at the
		// stored state then verify that nothing was written)
		return ""
	}
	if m.Closed && op.Kind != "close" && op.Kind != "reopen" {
		// after Close every call returns promptly with an error or a result; nothing to compare
		return ""
	}
	coll := func(name string) *Coll { return m.Colls[name] }
	switch op.Kind {
	case "close":
		if out.Err != "" {
			return "Close failed: " + out.Err
		}
		m.Closed = true
		return ""
	case "reopen":
		if out.Err != "" {
			return "reopen failed: " + out.Err
		}
		m.Closed = false
		return ""
	case "storm":
		if coll(op.Coll) == nil {
			m.Colls[op.Coll] = &Coll{Docs: map[string]cs.Doc{}, Indexes: map[string]bool{}}
		}
		return ""
	case "createcoll":
		var conds []string
		if coll(op.Coll) != nil {
			conds = append(conds, "ErrCollectionExist")
		}
		if s := errMatches(out.Err, conds); s != "" || len(conds) > 0 {
			return s
		}
		m.Colls[op.Coll] = &Coll{Docs: map[string]cs.Doc{}, Indexes: map[string]bool{}}
		return ""
	case "dropcoll":
		var conds []string
		if coll(op.Coll) == nil {
			conds = append(conds, "ErrCollectionNotExist")
		}
		if s := errMatches(out.Err, conds); s != "" || len(conds) > 0 {
			return s
		}
		delete(m.Colls, op.Coll)
		return ""
	case "hascoll":
		if out.Err != "" {
			return "unexpected error " + out.Err
		}
		if out.B != (coll(op.Coll) != nil) {
			return fmt.Sprintf("HasCollection(%q) = %v, model %v", op.Coll, out.B, coll(op.Coll) != nil)
		}
		return ""
	case "listcolls":
		if out.Err != "" {
			return "unexpected error " + out.Err
		}
		return sameSet("ListCollections", out.Names, m.CollNames())
	case "insert", "insertone":
		return m.stepInsert(op, out)
	case "save":
		if len(op.Docs) != 1 {
			panic("save needs one doc")
		}
		if needsId(op.Docs[0]) {
			return m.stepInsert(op, out)
		}
		id, _ := op.Docs[0]["_id"].(string)
		return m.stepReplace(op.Coll, id, op.Docs[0], out, false)
	case "replace":
		return m.stepReplace(op.Coll, op.Id.Lit, op.Docs[0], out, true)
	case "updatebyid":
		return m.stepUpdateById(op, out)
	case "update", "updatefunc", "delete":
		return m.stepBulk(op, out)
	case "deletebyid":
		var conds []string
		c := coll(op.Coll)
		if c == nil {
			conds = append(conds, "ErrCollectionNotExist")
		}
		if s := errMatches(out.Err, conds); s != "" || len(conds) > 0 {
			return s
		}
		delete(c.Docs, op.Id.Lit)
		return ""
	case "find", "iterate", "foreach", "count", "exists", "findfirst":
		return m.stepRead(op, out)
	case "findbyid":
		var conds []string
		c := coll(op.Coll)
		if c == nil {
			conds = append(conds, "ErrCollectionNotExist")
		}
		if s := errMatches(out.Err, conds); s != "" || len(conds) > 0 {
			return s
		}
		d, live := c.Docs[op.Id.Lit]
		if live != (len(out.Docs) == 1) {
			return fmt.Sprintf("FindById(%q,%q): found=%v, model live=%v", op.Coll, op.Id.Lit, len(out.Docs) == 1, live)
		}
		if live && !cs.StrictEqual(map[string]interface{}(out.Docs[0]), map[string]interface{}(d)) {
			return fmt.Sprintf("FindById(%q,%q): got %s want %s", op.Coll, op.Id.Lit, cs.Show(out.Docs[0]), cs.Show(d))
		}
		return ""
	case "createindex":
		var conds []string
		c := coll(op.Coll)
		if c == nil {
			conds = append(conds, "ErrCollectionNotExist")
		} else if c.Indexes[op.Field] {
			conds = append(conds, "ErrIndexExist")
		}
		if s := errMatches(out.Err, conds); s != "" || len(conds) > 0 {
			return s
		}
		c.Indexes[op.Field] = true
		return ""
	case "dropindex":
		var conds []string
		c := coll(op.Coll)
		if c == nil {
			conds = append(conds, "ErrCollectionNotExist")
		} else if !c.Indexes[op.Field] {
			conds = append(conds, "ErrIndexNotExist")
		}
		if s := errMatches(out.Err, conds); s != "" || len(conds) > 0 {
			return s
		}
		delete(c.Indexes, op.Field)
		return ""
	case "hasindex":
		var conds []string
		c := coll(op.Coll)
		if c == nil {
			conds = append(conds, "ErrCollectionNotExist")
		}
		if s := errMatches(out.Err, conds); s != "" || len(conds) > 0 {
			return s
		}
		if out.B != c.Indexes[op.Field] {
			return fmt.Sprintf("HasIndex(%q,%q) = %v, model %v", op.Coll, op.Field, out.B, c.Indexes[op.Field])
		}
		return ""
	case "listindexes":
		var conds []string
		c := coll(op.Coll)
		if c == nil {
			conds = append(conds, "ErrCollectionNotExist")
		}
		if s := errMatches(out.Err, conds); s != "" || len(conds) > 0 {
			return s
		}
		return sameSet("ListIndexes", out.Names, c.IndexNames())
	case "export":
		var conds []string
		if coll(op.Coll) == nil {
			conds = append(conds, "ErrCollectionNotExist")
		}
		if op.Note == "badpath" {
			conds = append(conds, "any")
		}
		return errMatches(out.Err, conds)
	case "import":
		// op.Docs carries the documents the file holds (JSON-typed); Note = "badfile" for an
		// unreadable or ill-formed file
		var conds []string
		if coll(op.Coll) != nil {
			conds = append(conds, "any")
		}
		if op.Note == "badfile" {
			conds = append(conds, "any")
		} else {
			seen := map[string]bool{}
			for _, d := range op.Docs {
				id, _ := d["_id"].(string)
				if needsId(d) {
					m.NeedResync = true // generated ids: read the result back
					continue
				}
				if !DocValid(d) || seen[id] {
					conds = append(conds, "any")
					break
				}
				seen[id] = true
			}
		}
		if s := errMatches(out.Err, conds); s != "" || len(conds) > 0 {
			m.NeedResync = false
			return s
		}
		nc := &Coll{Docs: map[string]cs.Doc{}, Indexes: map[string]bool{}}
		for _, d := range op.Docs {
			if id, ok := d["_id"].(string); ok && id != "" {
				nc.Docs[id] = cs.CloneDoc(d)
			}
		}
		m.Colls[op.Coll] = nc
		// the imported values are JSON-typed: the caller compares them with op.Docs up to numeric
		// kind and then takes the stored documents as the new model state
		m.NeedResync = true
		return ""
	case "createbyquery":
		var conds []string
		if coll(op.Coll) != nil {
			conds = append(conds, "ErrCollectionExist")
		}
		src := coll(op.Q.Coll)
		// (source and target being the same missing collection is no exception: the query runs on
		// a collection that does not exist at the time of the call - C13 - so the call fails and
		// creates nothing)
		if src == nil {
			conds = append(conds, "any")
		}
		if HasBadLiteral(op.Q.Crit) {
			conds = append(conds, "any")
		}
		if s := errMatches(out.Err, conds); s != "" || len(conds) > 0 {
			return s
		}
		sel, ok := Select(op.Q, src.Docs)
		nc := &Coll{Docs: map[string]cs.Doc{}, Indexes: map[string]bool{}}
		m.Colls[op.Coll] = nc
		if !ok {
			m.NeedResync = true
			return ""
		}
		for _, d := range sel {
			nc.Docs[d["_id"].(string)] = d
		}
		return ""
	}
	panic("model.Step: unknown op kind " + op.Kind)
}

func sameSet(what string, got, want []string) string {
	g := append([]string{}, got...)
	sort.Strings(g)
	w := append([]string{}, want...)
	sort.Strings(w)
	if strings.Join(g, "\x00") != strings.Join(w, "\x00") || len(g) != len(w) {
		return fmt.Sprintf("%s = %q, model %q", what, g, w)
	}
	return ""
}

func (m *DB) stepInsert(op *cs.Op, out *cs.Outcome) string {
	// ids after the call: supplied kept, missing/"" assigned fresh valid distinct ones
	if len(out.Ids) != len(op.Docs) {
		return fmt.Sprintf("harness: %d ids reported for %d documents", len(out.Ids), len(op.Docs))
	}
	c := m.Colls[op.Coll]
	final := make([]cs.Doc, len(op.Docs))
	fresh := map[string]bool{}
	for i, d := range op.Docs {
		nd := cs.CloneDoc(d)
		if needsId(d) {
			id := out.Ids[i]
			if !ValidId(id) {
				return fmt.Sprintf("document %d had no _id and was given %q, not a valid UUID", i, id)
			}
			if fresh[id] {
				return fmt.Sprintf("generated id %q assigned twice in one batch", id)
			}
			if c != nil {
				if _, taken := c.Docs[id]; taken {
					return fmt.Sprintf("generated id %q collides with a stored document", id)
				}
			}
			fresh[id] = true
			nd["_id"] = id
		} else if s, isStr := d["_id"].(string); isStr && out.Ids[i] != s {
			return fmt.Sprintf("document %d: supplied _id %q changed to %q", i, s, out.Ids[i])
		}
		final[i] = nd
	}
	var conds []string
	if c == nil {
		conds = append(conds, "ErrCollectionNotExist")
	} else {
		seen := map[string]bool{}
		for _, d := range final {
			id, isStr := d["_id"].(string)
			_, stored := c.Docs[id]
			if isStr && (stored || seen[id]) {
				conds = append(conds, "ErrDuplicateKey")
				break
			}
			if !DocValid(d) {
				conds = append(conds, "any")
				break
			}
			seen[id] = true
		}
	}
	if s := errMatches(out.Err, conds); s != "" || len(conds) > 0 {
		return s
	}
	if op.Kind == "insertone" && out.Ret != out.Ids[0] {
		return fmt.Sprintf("InsertOne returned %q but the document's _id is %q", out.Ret, out.Ids[0])
	}
	for _, d := range final {
		c.Docs[d["_id"].(string)] = d
	}
	return ""
}

func (m *DB) stepReplace(collName, id string, doc cs.Doc, out *cs.Outcome, explicit bool) string {
	var conds []string
	c := m.Colls[collName]
	did, _ := doc["_id"].(string)
	if did != id {
		conds = append(conds, "any")
	}
	if c == nil {
		conds = append(conds, "ErrCollectionNotExist")
	} else if _, live := c.Docs[id]; !live {
		conds = append(conds, "ErrDocumentNotExist")
	}
	if !DocValid(doc) {
		conds = append(conds, "any")
	}
	if s := errMatches(out.Err, conds); s != "" || len(conds) > 0 {
		return s
	}
	c.Docs[id] = cs.CloneDoc(doc)
	return ""
}

func (m *DB) stepUpdateById(op *cs.Op, out *cs.Outcome) string {
	var conds []string
	c := m.Colls[op.Coll]
	var old, nd cs.Doc
	if c == nil {
		conds = append(conds, "ErrCollectionNotExist")
	} else if d, live := c.Docs[op.Id.Lit]; !live {
		conds = append(conds, "ErrDocumentNotExist")
	} else {
		old = d
		nd = ApplyUpdater(op.Upd, d)
		if !DocValid(nd) {
			conds = append(conds, "any")
		} else if nd["_id"] != old["_id"] {
			if m.AllowIdRewrite {
				m.NeedResync = true
				return checkCallback(out, []cs.Doc{old})
			}
			conds = append(conds, "any")
		}
	}
	// the updater runs exactly once, on the stored value, iff the document exists
	want := []cs.Doc{}
	if old != nil {
		want = append(want, old)
	}
	if s := checkCallback(out, want); s != "" {
		return s
	}
	if s := errMatches(out.Err, conds); s != "" || len(conds) > 0 {
		return s
	}
	c.Docs[op.Id.Lit] = nd
	return ""
}

// checkCallback: the callback ran once per expected document (any order), each time on
// the pre-call value.
func checkCallback(out *cs.Outcome, want []cs.Doc) string {
	if out.CbBad != "" {
		return out.CbBad
	}
	if out.CbIds == nil && out.Calls == 0 && len(want) == 0 {
		return ""
	}
	got := append([]string{}, out.CbIds...)
	sort.Strings(got)
	w := make([]string, len(want))
	for i, d := range want {
		w[i] = d["_id"].(string)
	}
	sort.Strings(w)
	if len(got) != len(w) {
		return fmt.Sprintf("update function called %d times (%v), expected once for each of %d documents (%v)", len(got), trunc(got), len(w), trunc(w))
	}
	for i := range got {
		if got[i] != w[i] {
			return fmt.Sprintf("update function called on %v, expected %v", trunc(got), trunc(w))
		}
	}
	byId := map[string]cs.Doc{}
	for _, d := range want {
		byId[d["_id"].(string)] = d
	}
	for _, d := range out.CbDocs {
		id, _ := d["_id"].(string)
		if !cs.StrictEqual(map[string]interface{}(d), map[string]interface{}(byId[id])) {
			return fmt.Sprintf("update function received %s for %q, the pre-call value is %s", cs.Show(d), id, cs.Show(byId[id]))
		}
	}
	return ""
}

func trunc(s []string) []string {
	if len(s) > 6 {
		return append(append([]string{}, s[:6]...), fmt.Sprintf("…(%d)", len(s)))
	}
	return s
}

func (m *DB) stepBulk(op *cs.Op, out *cs.Outcome) string {
	var conds []string
	q := op.Q
	c := m.Colls[q.Coll]
	if HasBadLiteral(q.Crit) {
		conds = append(conds, "any")
	}
	if c == nil {
		conds = append(conds, "ErrCollectionNotExist")
	}
	if len(conds) > 0 {
		return errMatches(out.Err, conds)
	}
	sel, ok := Select(q, c.Docs)
	if !ok {
		// the choice of documents is not unique: validity is checked by the caller after resync
		m.NeedResync = true
		if out.Err != "" {
			return "unexpected error " + out.Err
		}
		return ""
	}
	news := make([]cs.Doc, len(sel))
	rewrite := false
	for i, d := range sel {
		switch op.Kind {
		case "delete":
			news[i] = nil
		case "update":
			n := cs.CloneDoc(d)
			ks := make([]string, 0, len(op.UpdMap))
			for k := range op.UpdMap {
				ks = append(ks, k)
			}
			sort.Strings(ks)
			for _, k := range ks {
				SetPath(n, k, cs.Clone(op.UpdMap[k].X))
			}
			news[i] = n
		case "updatefunc":
			news[i] = ApplyUpdater(op.Upd, d)
		}
		if news[i] != nil {
			if !DocValid(news[i]) {
				conds = append(conds, "any")
				break
			}
			if news[i]["_id"] != d["_id"] {
				rewrite = true
			}
		}
	}
	if rewrite && len(conds) == 0 {
		if m.AllowIdRewrite {
			m.NeedResync = true
			return ""
		}
		conds = append(conds, "any")
	}
	if op.Kind == "updatefunc" && len(conds) == 0 {
		if s := checkCallback(out, sel); s != "" {
			return s
		}
	}
	if s := errMatches(out.Err, conds); s != "" || len(conds) > 0 {
		return s
	}
	for i, d := range sel {
		id := d["_id"].(string)
		if news[i] == nil {
			delete(c.Docs, id)
		} else {
			c.Docs[id] = news[i]
		}
	}
	return ""
}

func (m *DB) stepRead(op *cs.Op, out *cs.Outcome) string {
	var conds []string
	q := op.Q
	c := m.Colls[q.Coll]
	if HasBadLiteral(q.Crit) {
		conds = append(conds, "any")
	}
	if c == nil {
		conds = append(conds, "ErrCollectionNotExist")
	}
	if s := errMatches(out.Err, conds); s != "" || len(conds) > 0 {
		return s
	}
	match := Matching(c.Docs, q.Crit)
	skip, limit := Window(q)
	switch op.Kind {
	case "find", "iterate":
		return CheckResult(q, c.Docs, out.Docs)
	case "count":
		if want := WindowLen(len(match), skip, limit); out.N != want {
			return fmt.Sprintf("Count = %d, expected %d (matching %d, skip %d, limit %d)", out.N, want, len(match), skip, limit)
		}
	case "exists":
		// Exists replaces the limit by 1
		want := len(match)-skip > 0
		if limit == 0 {
			return "" // excluded by C09: any limit other than 0
		}
		if out.B != want {
			return fmt.Sprintf("Exists = %v, expected %v (matching %d, skip %d)", out.B, want, len(match), skip)
		}
	case "findfirst":
		if limit == 0 {
			return ""
		}
		q1 := *q
		one := 1
		q1.Limit = &one
		return CheckResult(&q1, c.Docs, out.Docs)
	case "foreach":
		total := WindowLen(len(match), skip, limit)
		wantCalls := total
		if op.StopAt > 0 && op.StopAt < total {
			wantCalls = op.StopAt
		}
		if out.Calls != wantCalls {
			return fmt.Sprintf("ForEach invoked the consumer %d times, expected %d (sequence length %d, stop at %d)", out.Calls, wantCalls, total, op.StopAt)
		}
		if wantCalls == total {
			return CheckResult(q, c.Docs, out.Docs)
		}
		// early stop: the visited documents are a prefix of an admissible sequence
		qq := *q
		lim := wantCalls
		qq.Limit = &lim
		return CheckResult(&qq, c.Docs, out.Docs)
	}
	return ""
}

// Resync replaces the contents of a collection with what the database holds.
func (m *DB) Resync(name string, docs []cs.Doc) {
	c := m.Colls[name]
	if c == nil {
		return
	}
	c.Docs = map[string]cs.Doc{}
	for _, d := range docs {
		if id, ok := d["_id"].(string); ok {
			c.Docs[id] = d
		}
	}
}
