package model

import (
	"fmt"
	"sort"

	"verif/harness/cs"
)

// NormSort gives the effective sort options of a query: Sort() without options sorts by
// _id ascending; a negative direction is descending, anything else ascending.
func NormSort(q *cs.Query) []cs.SortOpt {
	if !q.SortSet {
		return nil
	}
	if len(q.Sort) == 0 {
		return []cs.SortOpt{{Field: "_id", Dir: 1}}
	}
	out := make([]cs.SortOpt, len(q.Sort))
	for i, o := range q.Sort {
		d := 1
		if o.Dir < 0 {
			d = -1
		}
		out[i] = cs.SortOpt{Field: o.Field, Dir: d}
	}
	return out
}

// Window returns the effective skip (>= 0) and limit (< 0 = unlimited).
func Window(q *cs.Query) (int, int) {
	skip, limit := 0, -1
	if q.Skip != nil && *q.Skip >= 0 {
		skip = *q.Skip
	}
	if q.Limit != nil {
		limit = *q.Limit
		if limit < 0 {
			limit = -1
		}
	}
	return skip, limit
}

// WindowLen is min(limit, max(0, total-skip)).
func WindowLen(total, skip, limit int) int {
	n := total - skip
	if n < 0 {
		n = 0
	}
	if limit >= 0 && limit < n {
		n = limit
	}
	return n
}

// KeyCmp compares two documents on the sort options. absentFirst selects reading B
// (absent < nil < everything else) instead of reading A (absent == nil).
func KeyCmp(a, b map[string]interface{}, opts []cs.SortOpt, absentFirst bool) int {
	for _, o := range opts {
		va, ha := Lookup(a, o.Field)
		vb, hb := Lookup(b, o.Field)
		c := 0
		if absentFirst && ha != hb {
			if !ha {
				c = -1
			} else {
				c = 1
			}
		} else {
			c = Cmp(va, vb)
		}
		if c != 0 {
			return c * o.Dir
		}
	}
	return 0
}

// Matching returns the documents of docs that satisfy c, in id order.
func Matching(docs map[string]cs.Doc, c *cs.Crit) []cs.Doc {
	ids := make([]string, 0, len(docs))
	for id := range docs {
		ids = append(ids, id)
	}
	sort.Strings(ids)
	out := []cs.Doc{}
	for _, id := range ids {
		if Eval(c, docs[id]) {
			out = append(out, docs[id])
		}
	}
	return out
}

// CheckResult decides whether got is an admissible result of q over docs (§4 of
// DESIGN.md): right documents, right cardinality, and - with a sort - the window of some
// correctly sorted order. It returns "" or a description of the disagreement.
func CheckResult(q *cs.Query, docs map[string]cs.Doc, got []cs.Doc) string {
	match := Matching(docs, q.Crit)
	skip, limit := Window(q)
	want := WindowLen(len(match), skip, limit)
	opts := NormSort(q)

	matchIds := map[string]bool{}
	for _, d := range match {
		matchIds[d["_id"].(string)] = true
	}
	seen := map[string]bool{}
	for i, g := range got {
		id, _ := g["_id"].(string)
		if seen[id] {
			return fmt.Sprintf("document %q returned twice (position %d)", id, i)
		}
		seen[id] = true
		md, live := docs[id]
		if !live {
			return fmt.Sprintf("returned document %q is not live in the model", id)
		}
		if !cs.StrictEqual(map[string]interface{}(g), map[string]interface{}(md)) {
			return fmt.Sprintf("document %q differs: got %s want %s", id, cs.Show(g), cs.Show(md))
		}
		if !matchIds[id] {
			return fmt.Sprintf("returned document %q does not satisfy the criteria: %s", id, cs.Show(md))
		}
	}
	if len(got) != want {
		return fmt.Sprintf("result has %d documents, expected %d (matching %d, skip %d, limit %d)", len(got), want, len(match), skip, limit)
	}
	if len(opts) == 0 {
		return ""
	}
	var msgs []string
	for _, absentFirst := range []bool{false, true} {
		w := make([]cs.Doc, len(match))
		copy(w, match)
		sort.SliceStable(w, func(i, j int) bool { return KeyCmp(w[i], w[j], opts, absentFirst) < 0 })
		bad := ""
		for i, g := range got {
			if KeyCmp(g, w[skip+i], opts, absentFirst) != 0 {
				bad = fmt.Sprintf("position %d: sort key of %s does not equal the key expected there (%s) [absentFirst=%v]",
					i, keyShow(g, opts), keyShow(w[skip+i], opts), absentFirst)
				break
			}
		}
		if bad == "" {
			return ""
		}
		msgs = append(msgs, bad)
	}
	return msgs[0] + " / " + msgs[1]
}

func keyShow(d cs.Doc, opts []cs.SortOpt) string {
	s := "("
	for i, o := range opts {
		if i > 0 {
			s += ","
		}
		v, ok := Lookup(d, o.Field)
		if !ok {
			s += "<absent>"
		} else {
			s += cs.Show(v)
		}
	}
	return s + ")"
}

// Select returns the documents a bulk write with q must touch when that is uniquely
// determined: unsorted without window (all matching), or sorted with pairwise distinct
// keys. ok=false when the choice is not unique.
func Select(q *cs.Query, docs map[string]cs.Doc) (sel []cs.Doc, ok bool) {
	match := Matching(docs, q.Crit)
	skip, limit := Window(q)
	opts := NormSort(q)
	windowed := skip > 0 || limit >= 0
	if !windowed {
		return match, true
	}
	if len(opts) == 0 {
		n := WindowLen(len(match), skip, limit)
		if n == 0 {
			return nil, true
		}
		if n == len(match) {
			return match, true
		}
		return nil, false
	}
	w := make([]cs.Doc, len(match))
	copy(w, match)
	sort.SliceStable(w, func(i, j int) bool { return KeyCmp(w[i], w[j], opts, false) < 0 })
	for i := 1; i < len(w); i++ {
		if KeyCmp(w[i-1], w[i], opts, false) == 0 {
			return nil, false
		}
	}
	// distinct keys under reading A; with several keys reading B (absent < nil) may still
	// order differently, in which case the choice is not unique either.
	wb := make([]cs.Doc, len(match))
	copy(wb, match)
	sort.SliceStable(wb, func(i, j int) bool { return KeyCmp(wb[i], wb[j], opts, true) < 0 })
	for i := range w {
		if w[i]["_id"] != wb[i]["_id"] {
			return nil, false
		}
	}
	n := WindowLen(len(w), skip, limit)
	if n == 0 {
		return nil, true
	}
	return w[skip : skip+n], true
}
