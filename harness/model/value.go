// Package model is the reference semantics: an independent implementation of clover's
// documented value order, criteria, sort/window and database behaviour, written from
// the property statements and the README. It imports nothing from clover.
package model

import (
	"math"
	"math/big"
	"regexp"
	"sort"
	"strings"
	"time"

	"verif/harness/cs"
)

// Rank: nil < number < string < object < array < bool < time.
func Rank(v interface{}) int {
	switch v.(type) {
	case nil:
		return 0
	case int64, uint64, float64:
		return 1
	case string:
		return 2
	case map[string]interface{}, cs.Doc:
		return 3
	case []interface{}:
		return 4
	case bool:
		return 5
	case time.Time:
		return 6
	}
	panic("model.Rank: not a canonical value")
}

func sign(i int) int {
	switch {
	case i < 0:
		return -1
	case i > 0:
		return 1
	}
	return 0
}

func bigOf(v interface{}) *big.Float {
	switch x := v.(type) {
	case int64:
		return new(big.Float).SetPrec(80).SetInt64(x)
	case uint64:
		return new(big.Float).SetPrec(80).SetUint64(x)
	case float64:
		return new(big.Float).SetPrec(80).SetFloat64(x)
	}
	panic("not a number")
}

// CmpNum compares two numbers exactly by numeric value.
func CmpNum(a, b interface{}) int {
	if fa, ok := a.(float64); ok {
		if fb, ok := b.(float64); ok {
			switch {
			case fa < fb:
				return -1
			case fa > fb:
				return 1
			}
			return 0
		}
	}
	// infinities cannot be handled by SetFloat64+Cmp uniformly for NaN, but Inf is fine
	return bigOf(a).Cmp(bigOf(b))
}

func asMap(v interface{}) map[string]interface{} {
	switch x := v.(type) {
	case map[string]interface{}:
		return x
	case cs.Doc:
		return x
	}
	return nil
}

// Cmp is the total preorder of the properties (C10): sign only.
func Cmp(a, b interface{}) int {
	ra, rb := Rank(a), Rank(b)
	if ra != rb {
		return sign(ra - rb)
	}
	switch ra {
	case 0:
		return 0
	case 1:
		return CmpNum(a, b)
	case 2:
		return sign(strings.Compare(a.(string), b.(string)))
	case 3:
		ma, mb := asMap(a), asMap(b)
		ka, kb := cs.SortedKeys(ma), cs.SortedKeys(mb)
		for i := 0; i < len(ka) && i < len(kb); i++ {
			if c := strings.Compare(ka[i], kb[i]); c != 0 {
				return sign(c)
			}
			if c := Cmp(ma[ka[i]], mb[kb[i]]); c != 0 {
				return c
			}
		}
		return sign(len(ka) - len(kb))
	case 4:
		sa, sb := a.([]interface{}), b.([]interface{})
		for i := 0; i < len(sa) && i < len(sb); i++ {
			if c := Cmp(sa[i], sb[i]); c != 0 {
				return c
			}
		}
		return sign(len(sa) - len(sb))
	case 5:
		ba, bb := a.(bool), b.(bool)
		switch {
		case ba == bb:
			return 0
		case !ba:
			return -1
		}
		return 1
	case 6:
		ta, tb := a.(time.Time), b.(time.Time)
		switch {
		case ta.Before(tb):
			return -1
		case ta.After(tb):
			return 1
		}
		return 0
	}
	panic("unreachable")
}

// Lookup walks a dotted path; a non-object on the way means absent.
func Lookup(d map[string]interface{}, path string) (interface{}, bool) {
	parts := strings.Split(path, ".")
	cur := d
	for i, p := range parts {
		if cur == nil {
			return nil, false
		}
		v, ok := cur[p]
		if !ok {
			return nil, false
		}
		if i == len(parts)-1 {
			return v, true
		}
		cur = asMap(v)
	}
	return nil, false
}

// Get returns the value at path, nil when absent.
func Get(d map[string]interface{}, path string) interface{} {
	v, _ := Lookup(d, path)
	return v
}

func Has(d map[string]interface{}, path string) bool {
	_, ok := Lookup(d, path)
	return ok
}

// SetPath assigns path := v, creating (or replacing non-objects by) intermediate objects.
func SetPath(d map[string]interface{}, path string, v interface{}) {
	parts := strings.Split(path, ".")
	cur := d
	for i, p := range parts {
		if i == len(parts)-1 {
			cur[p] = v
			return
		}
		next := asMap(cur[p])
		if next == nil {
			next = map[string]interface{}{}
			cur[p] = next
		} else if dd, ok := cur[p].(cs.Doc); ok {
			next = map[string]interface{}(dd)
			cur[p] = next
		}
		cur = next
	}
}

// Funcs is the fixed table of MatchFunc predicates (mirrored on the clover side).
var Funcs = map[string]func(d map[string]interface{}) bool{
	"always":    func(d map[string]interface{}) bool { return true },
	"never":     func(d map[string]interface{}) bool { return false },
	"xIsString": func(d map[string]interface{}) bool { _, ok := Get(d, "x").(string); return ok },
	"hasY":      func(d map[string]interface{}) bool { return Has(d, "y") },
	"xIsNumber": func(d map[string]interface{}) bool { return Get(d, "x") != nil && Rank(Get(d, "x")) == 1 },
}

var FuncNames = func() []string {
	ks := []string{}
	for k := range Funcs {
		ks = append(ks, k)
	}
	sort.Strings(ks)
	return ks
}()

// ErrBadLiteral is the evaluation outcome when an operand cannot be normalised.
type ErrBadLiteral struct{}

func (ErrBadLiteral) Error() string { return "operand cannot be normalised" }

// HasBadLiteral reports whether the tree contains an operand of Kind "bad".
func HasBadLiteral(c *cs.Crit) bool {
	bad := false
	c.Walk(func(x *cs.Crit) {
		if x.Op == "func" {
			return
		}
		if x.Arg != nil && x.Arg.Kind == "bad" {
			bad = true
		}
		for _, a := range x.Args {
			if a.Kind == "bad" {
				bad = true
			}
		}
	})
	return bad
}

func operand(d map[string]interface{}, o cs.Operand) interface{} {
	switch o.Kind {
	case "field", "dollar":
		return Get(d, o.Name)
	}
	if s, ok := o.Lit.X.(string); ok && strings.HasPrefix(s, "$") {
		// a string literal starting with '$' is a field reference
		return Get(d, strings.TrimLeft(s, "$"))
	}
	return o.Lit.X
}

// Eval evaluates a criteria tree on a document (nil tree = true).
func Eval(c *cs.Crit, d map[string]interface{}) bool {
	if c == nil {
		return true
	}
	switch c.Op {
	case "and":
		return Eval(c.Sub[0], d) && Eval(c.Sub[1], d)
	case "or":
		return Eval(c.Sub[0], d) || Eval(c.Sub[1], d)
	case "not":
		return !Eval(c.Sub[0], d)
	case "exists":
		return Has(d, c.Field)
	case "notexists":
		return !Has(d, c.Field)
	case "eq":
		return Has(d, c.Field) && Cmp(Get(d, c.Field), operand(d, *c.Arg)) == 0
	case "neq":
		return !(Has(d, c.Field) && Cmp(Get(d, c.Field), operand(d, *c.Arg)) == 0)
	case "isnil":
		return Has(d, c.Field) && Get(d, c.Field) == nil
	case "istrue":
		v, ok := Get(d, c.Field).(bool)
		return ok && v
	case "isfalse":
		v, ok := Get(d, c.Field).(bool)
		return ok && !v
	case "isnilornotexists":
		return Get(d, c.Field) == nil
	case "gt":
		return Cmp(Get(d, c.Field), operand(d, *c.Arg)) > 0
	case "gte":
		return Cmp(Get(d, c.Field), operand(d, *c.Arg)) >= 0
	case "lt":
		return Cmp(Get(d, c.Field), operand(d, *c.Arg)) < 0
	case "lte":
		return Cmp(Get(d, c.Field), operand(d, *c.Arg)) <= 0
	case "in":
		v := Get(d, c.Field)
		for _, a := range c.Args {
			if Cmp(operand(d, a), v) == 0 {
				return true
			}
		}
		return false
	case "contains":
		arr, ok := Get(d, c.Field).([]interface{})
		if !ok {
			return false
		}
		for _, a := range c.Args {
			want := operand(d, a)
			found := false
			for _, e := range arr {
				if Cmp(want, e) == 0 {
					found = true
					break
				}
			}
			if !found {
				return false
			}
		}
		return true
	case "like":
		s, ok := Get(d, c.Field).(string)
		if !ok {
			return false
		}
		re, err := regexp.Compile(c.Pattern)
		if err != nil {
			return false
		}
		return re.MatchString(s)
	case "func":
		return Funcs[c.Func](d)
	}
	panic("model.Eval: unknown op " + c.Op)
}

// IsFinite reports whether every float inside v is finite.
func IsFinite(v interface{}) bool {
	switch x := v.(type) {
	case float64:
		return !math.IsNaN(x) && !math.IsInf(x, 0)
	case []interface{}:
		for _, e := range x {
			if !IsFinite(e) {
				return false
			}
		}
	case map[string]interface{}:
		for _, e := range x {
			if !IsFinite(e) {
				return false
			}
		}
	}
	return true
}
