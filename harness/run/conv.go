// Package run interprets case data against clover's public API.
package run

import (
	"fmt"
	"reflect"
	"time"

	"github.com/ostafen/clover/v2/document"
	"github.com/ostafen/clover/v2/query"

	"verif/harness/cs"
	"verif/harness/model"
)

// ToDocument builds a clover document from a field map.
func ToDocument(d cs.Doc) *document.Document {
	doc := document.NewDocumentOf(map[string]interface{}(cs.CloneDoc(d)))
	if doc == nil {
		doc = document.NewDocument()
	}
	return doc
}

// Canon converts whatever clover returned into canonical values; anything that is not a
// canonical type is kept as it is (and will then fail strict equality and be shown with
// its Go type).
func Canon(v interface{}) interface{} {
	switch x := v.(type) {
	case nil, bool, int64, uint64, float64, string, time.Time:
		return x
	case []interface{}:
		a := make([]interface{}, len(x))
		for i, e := range x {
			a[i] = Canon(e)
		}
		return a
	case map[string]interface{}:
		m := make(map[string]interface{}, len(x))
		for k, e := range x {
			m[k] = Canon(e)
		}
		return m
	}
	return Foreign{fmt.Sprintf("%T", v), fmt.Sprintf("%v", v)}
}

// Foreign stands for a value of a non-canonical Go type found in a document.
type Foreign struct{ Type, Text string }

func FromDocument(doc *document.Document) cs.Doc {
	if doc == nil {
		return nil
	}
	return cs.Doc(Canon(doc.ToMap()).(map[string]interface{}))
}

func FromDocuments(docs []*document.Document) []cs.Doc {
	out := make([]cs.Doc, len(docs))
	for i, d := range docs {
		out[i] = FromDocument(d)
	}
	return out
}

// GoLiteral converts a canonical number into the requested Go kind.
func GoLiteral(v interface{}, kind string) interface{} {
	if kind == "" {
		return v
	}
	if kind == "deep" {
		return deepKinds(v)
	}
	var rv reflect.Value
	switch x := v.(type) {
	case int64:
		rv = reflect.ValueOf(x)
	case uint64:
		rv = reflect.ValueOf(x)
	case float64:
		rv = reflect.ValueOf(x)
	default:
		return v
	}
	types := map[string]reflect.Type{
		"int": reflect.TypeOf(int(0)), "int8": reflect.TypeOf(int8(0)), "int16": reflect.TypeOf(int16(0)),
		"int32": reflect.TypeOf(int32(0)), "int64": reflect.TypeOf(int64(0)),
		"uint": reflect.TypeOf(uint(0)), "uint8": reflect.TypeOf(uint8(0)), "uint16": reflect.TypeOf(uint16(0)),
		"uint32": reflect.TypeOf(uint32(0)), "uint64": reflect.TypeOf(uint64(0)),
		"float32": reflect.TypeOf(float32(0)), "float64": reflect.TypeOf(float64(0)),
	}
	t, ok := types[kind]
	if !ok {
		panic("GoLiteral: unknown kind " + kind)
	}
	return rv.Convert(t).Interface()
}

// deepKinds rewrites the numbers inside a container literal into narrower Go kinds of the same
// value (int32, uint32, float32) where the conversion is exact.
func deepKinds(v interface{}) interface{} {
	switch x := v.(type) {
	case int64:
		if int64(int32(x)) == x {
			return int32(x)
		}
	case uint64:
		if uint64(uint32(x)) == x {
			return uint32(x)
		}
	case float64:
		if float64(float32(x)) == x && x != 0 {
			return float32(x)
		}
	case []interface{}:
		a := make([]interface{}, len(x))
		for i, e := range x {
			a[i] = deepKinds(e)
		}
		return a
	case map[string]interface{}:
		m := make(map[string]interface{}, len(x))
		for k, e := range x {
			m[k] = deepKinds(e)
		}
		return m
	}
	return v
}

// BadLiteral is a value clover cannot normalise.
func BadLiteral() interface{} { return make(chan int) }

func operandValue(o cs.Operand) interface{} {
	switch o.Kind {
	case "field":
		return query.Field(o.Name)
	case "dollar":
		return "$" + o.Name
	case "bad":
		return BadLiteral()
	}
	return GoLiteral(cs.Clone(o.Lit.X), o.GoKind)
}

// CloverFuncs mirrors model.Funcs on clover documents.
var CloverFuncs = map[string]func(doc *document.Document) bool{
	"always":    func(doc *document.Document) bool { return true },
	"never":     func(doc *document.Document) bool { return false },
	"xIsString": func(doc *document.Document) bool { _, ok := doc.Get("x").(string); return ok },
	"hasY":      func(doc *document.Document) bool { return doc.Has("y") },
	"xIsNumber": func(doc *document.Document) bool {
		switch doc.Get("x").(type) {
		case int64, uint64, float64:
			return true
		}
		return false
	},
}

func init() {
	for k := range model.Funcs {
		if CloverFuncs[k] == nil {
			panic("CloverFuncs misses " + k)
		}
	}
}

// BuildCriteria builds the clover criteria through the public builder API.
func BuildCriteria(c *cs.Crit) query.Criteria {
	if c == nil {
		return nil
	}
	f := query.Field(c.Field)
	switch c.Op {
	case "and":
		return BuildCriteria(c.Sub[0]).And(BuildCriteria(c.Sub[1]))
	case "or":
		return BuildCriteria(c.Sub[0]).Or(BuildCriteria(c.Sub[1]))
	case "not":
		return BuildCriteria(c.Sub[0]).Not()
	case "eq":
		return f.Eq(operandValue(*c.Arg))
	case "neq":
		return f.Neq(operandValue(*c.Arg))
	case "gt":
		return f.Gt(operandValue(*c.Arg))
	case "gte":
		return f.GtEq(operandValue(*c.Arg))
	case "lt":
		return f.Lt(operandValue(*c.Arg))
	case "lte":
		return f.LtEq(operandValue(*c.Arg))
	case "in":
		vals := make([]interface{}, len(c.Args))
		for i, a := range c.Args {
			vals[i] = operandValue(a)
		}
		return f.In(vals...)
	case "contains":
		vals := make([]interface{}, len(c.Args))
		for i, a := range c.Args {
			vals[i] = operandValue(a)
		}
		return f.Contains(vals...)
	case "like":
		return f.Like(c.Pattern)
	case "exists":
		return f.Exists()
	case "notexists":
		return f.NotExists()
	case "isnil":
		return f.IsNil()
	case "istrue":
		return f.IsTrue()
	case "isfalse":
		return f.IsFalse()
	case "isnilornotexists":
		return f.IsNilOrNotExists()
	case "func":
		return query.NewQuery("").MatchFunc(CloverFuncs[c.Func]).Criteria()
	}
	panic("BuildCriteria: unknown op " + c.Op)
}

// BuildQuery issues the builder calls in the order the case records them.
func BuildQuery(q *cs.Query) *query.Query {
	// Every builder method returns a new query in which the given setting replaces the earlier
	// one (a negative Skip is ignored and keeps it). A deterministic part of the cases is
	// therefore built the way callers derive queries from one another: an earlier Where / Sort /
	// Skip / Limit is set first and then overridden by the one under test.
	h := cs.Hash(q)
	cq := query.NewQuery(q.Coll)
	if h%7 == 0 {
		cq = cq.Where(query.Field("zz").Eq(1)).Sort(query.SortOption{Field: "zz", Direction: -1}).Limit(3)
		if q.Skip != nil && *q.Skip >= 0 {
			cq = cq.Skip(4)
		}
		if q.Crit == nil {
			cq = cq.Where(nil)
		}
		if !q.SortSet {
			cq = query.NewQuery(q.Coll).Where(cq.Criteria()).Skip(cq.GetSkip()).Limit(cq.GetLimit())
		}
		if q.Limit == nil {
			cq = cq.Limit(-1) // a negative limit lifts the earlier one
		}
	}
	if q.Crit != nil {
		cq = cq.Where(BuildCriteria(q.Crit))
	}
	if q.SortSet {
		opts := make([]query.SortOption, len(q.Sort))
		for i, o := range q.Sort {
			opts[i] = query.SortOption{Field: o.Field, Direction: o.Dir}
		}
		cq = cq.Sort(opts...)
	}
	if q.Skip != nil {
		cq = cq.Skip(*q.Skip)
	}
	if q.Limit != nil {
		cq = cq.Limit(*q.Limit)
	}
	return cq
}
