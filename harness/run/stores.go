package run

import (
	"bytes"
	"errors"
	"fmt"
	"os"
	"sort"
	"sync"
	"sync/atomic"

	badger "github.com/dgraph-io/badger/v4"
	clover "github.com/ostafen/clover/v2"
	"github.com/ostafen/clover/v2/store"
	badgerstore "github.com/ostafen/clover/v2/store/badger"
	"github.com/ostafen/clover/v2/store/bbolt"
)

// Backends known to the harness.
const (
	Bbolt         = "bbolt"
	BadgerMem     = "badger-mem"
	BadgerDisk    = "badger-disk"    // on disk, small files
	BadgerDefault = "badger-default" // on disk, shipped default options
	// small transaction budget (4 MiB memtable: about 0.6 MiB / 6000 entries per transaction), so
	// that "operation does not fit one badger transaction" is reachable with a 2000-document batch
	BadgerDiskSmall = "badger-disk-small"
	BadgerMemSmall  = "badger-mem-small"
)

// ScratchRoot is where scratch databases live (tmpfs when available).
func ScratchRoot() string {
	if d := os.Getenv("VERIF_SCRATCH"); d != "" {
		return d
	}
	if st, err := os.Stat("/dev/shm"); err == nil && st.IsDir() {
		return "/dev/shm"
	}
	return os.TempDir()
}

func NewScratchDir(tag string) string {
	d, err := os.MkdirTemp(ScratchRoot(), "verif-"+tag+"-")
	if err != nil {
		panic(err)
	}
	return d
}

func OpenStore(backend, dir string) (store.Store, error) {
	switch backend {
	case Bbolt:
		return bbolt.Open(dir)
	case BadgerMem:
		return badgerstore.OpenWithOptions(badger.DefaultOptions("").WithInMemory(true).WithLoggingLevel(badger.ERROR).WithNumCompactors(2).WithNumMemtables(2).WithMemTableSize(8 << 20))
	case BadgerDisk:
		return badgerstore.OpenWithOptions(badger.DefaultOptions(dir).WithLoggingLevel(badger.ERROR).
			WithValueLogFileSize(16 << 20).WithMemTableSize(64 << 20).WithNumCompactors(2).WithNumMemtables(2).
			WithBlockCacheSize(1 << 20).WithIndexCacheSize(1 << 20))
	case BadgerDefault:
		// exactly what a user of the badger backend gets: the shipped constructor
		return badgerstore.Open(dir)
	case BadgerDiskSmall:
		return badgerstore.OpenWithOptions(badger.DefaultOptions(dir).WithLoggingLevel(badger.ERROR).
			WithValueLogFileSize(4 << 20).WithMemTableSize(4 << 20).WithValueThreshold(32 << 10).WithNumCompactors(2).WithNumMemtables(2).
			WithBlockCacheSize(1 << 20).WithIndexCacheSize(1 << 20))
	case BadgerMemSmall:
		return badgerstore.OpenWithOptions(badger.DefaultOptions("").WithInMemory(true).WithLoggingLevel(badger.ERROR).
			WithMemTableSize(4 << 20).WithValueThreshold(32 << 10).WithNumCompactors(2).WithNumMemtables(2))
	}
	return nil, fmt.Errorf("unknown backend %q", backend)
}

// Item is one raw key/value pair.
type Item struct{ Key, Value []byte }

// Dump returns every key/value of the store, in key order, through a full cursor scan.
func Dump(s store.Store) ([]Item, error) {
	tx, err := s.Begin(false)
	if err != nil {
		return nil, err
	}
	defer tx.Rollback()
	cur, err := tx.Cursor(true)
	if err != nil {
		return nil, err
	}
	defer cur.Close()
	var items []Item
	if err := cur.Seek([]byte{}); err != nil {
		return nil, err
	}
	for ; cur.Valid(); cur.Next() {
		it, err := cur.Item()
		if err != nil {
			return nil, err
		}
		items = append(items, Item{Key: append([]byte{}, it.Key...), Value: append([]byte{}, it.Value...)})
	}
	sort.Slice(items, func(i, j int) bool { return bytes.Compare(items[i].Key, items[j].Key) < 0 })
	return items, nil
}

// ---------------------------------------------------------------------------------
// Decorating store: counts calls per kind, can fail the k-th call, can yield.

var ErrInjected = errors.New("verif: injected store fault")

// Call kinds.
const (
	KBegin = iota
	KGet
	KSet
	KDelete
	KItem
	KCommit
	KCursor
	KSeek
	NKinds
)

var KindNames = [NKinds]string{"begin", "get", "set", "delete", "item", "commit", "cursor", "seek"}

// Deco wraps a store. All counters are atomic so the decorator can be shared by
// goroutines.
type Deco struct {
	Inner store.Store

	mu      sync.Mutex
	Armed   bool
	FailAt  int64 // fail the FailAt-th counted call (1-based) among the fallible kinds; 0 = never
	Seq     int64 // number of fallible calls seen since Arm
	Counts  [NKinds]int64
	Trace   []int // kinds of the fallible calls since Arm (when Record)
	Record  bool
	Fired   bool
	FiredAt int    // kind that failed
	Yield   func() // called before every store call (schedule perturbation)
	// KeyLog records keys touched by Get/Set/Delete/Item when non-nil.
	KeyLog func(kind int, key []byte)
	// OnCall is invoked before every fallible store call with its kind and 1-based position
	// since Arm (crash engine: the worker kills itself here).
	OnCall func(kind int, seq int64)
	// AfterCommit is invoked after the inner commit succeeded, before Commit returns.
	AfterCommit func(seq int64)
}

func NewDeco(inner store.Store) *Deco { return &Deco{Inner: inner} }

// Arm resets the counters; failAt = 0 only counts.
func (d *Deco) Arm(failAt int64, record bool) {
	d.mu.Lock()
	defer d.mu.Unlock()
	d.Armed = true
	d.FailAt = failAt
	d.Seq = 0
	d.Counts = [NKinds]int64{}
	d.Trace = nil
	d.Record = record
	d.Fired = false
}

func (d *Deco) Disarm() {
	d.mu.Lock()
	defer d.mu.Unlock()
	d.Armed = false
	d.FailAt = 0
}

// fallible kinds are the ones the properties list: begin, get, set, delete, cursor item, commit.
func fallible(kind int) bool { return kind <= KCommit }

func (d *Deco) hit(kind int) error {
	if y := d.Yield; y != nil {
		y()
	}
	d.mu.Lock()
	defer d.mu.Unlock()
	atomic.AddInt64(&d.Counts[kind], 1)
	if !d.Armed || !fallible(kind) {
		return nil
	}
	d.Seq++
	if d.Record {
		d.Trace = append(d.Trace, kind)
	}
	if f := d.OnCall; f != nil {
		f(kind, d.Seq)
	}
	if d.FailAt > 0 && d.Seq == d.FailAt {
		d.Fired = true
		d.FiredAt = kind
		return ErrInjected
	}
	return nil
}

func (d *Deco) Begin(update bool) (store.Tx, error) {
	if err := d.hit(KBegin); err != nil {
		return nil, err
	}
	tx, err := d.Inner.Begin(update)
	if err != nil {
		return nil, err
	}
	return &decoTx{d: d, tx: tx}, nil
}

func (d *Deco) Close() error { return d.Inner.Close() }

type decoTx struct {
	d  *Deco
	tx store.Tx
}

func (t *decoTx) Set(key, value []byte) error {
	if err := t.d.hit(KSet); err != nil {
		return err
	}
	if f := t.d.KeyLog; f != nil {
		f(KSet, key)
	}
	return t.tx.Set(key, value)
}

func (t *decoTx) Get(key []byte) ([]byte, error) {
	if err := t.d.hit(KGet); err != nil {
		return nil, err
	}
	if f := t.d.KeyLog; f != nil {
		f(KGet, key)
	}
	return t.tx.Get(key)
}

func (t *decoTx) Delete(key []byte) error {
	if err := t.d.hit(KDelete); err != nil {
		return err
	}
	if f := t.d.KeyLog; f != nil {
		f(KDelete, key)
	}
	return t.tx.Delete(key)
}

func (t *decoTx) Cursor(forward bool) (store.Cursor, error) {
	t.d.hit(KCursor)
	c, err := t.tx.Cursor(forward)
	if err != nil {
		return nil, err
	}
	return &decoCursor{d: t.d, c: c}, nil
}

func (t *decoTx) Commit() error {
	if err := t.d.hit(KCommit); err != nil {
		// a failed commit must not take effect
		t.tx.Rollback()
		return err
	}
	err := t.tx.Commit()
	if f := t.d.AfterCommit; f != nil && err == nil {
		f(t.d.Seq)
	}
	return err
}

func (t *decoTx) Rollback() error { return t.tx.Rollback() }

type decoCursor struct {
	d *Deco
	c store.Cursor
}

func (c *decoCursor) Seek(key []byte) error {
	c.d.hit(KSeek)
	if f := c.d.KeyLog; f != nil {
		f(KSeek, key)
	}
	return c.c.Seek(key)
}
func (c *decoCursor) Next()        { c.c.Next() }
func (c *decoCursor) Valid() bool  { return c.c.Valid() }
func (c *decoCursor) Close() error { return c.c.Close() }
func (c *decoCursor) Item() (store.Item, error) {
	if err := c.d.hit(KItem); err != nil {
		return store.Item{}, err
	}
	it, err := c.c.Item()
	if err == nil {
		if f := c.d.KeyLog; f != nil {
			f(KItem, it.Key)
		}
	}
	return it, err
}

// Handle bundles a database handle with its store layers and scratch directory.
type Handle struct {
	Backend string
	Dir     string
	Raw     store.Store
	Deco    *Deco
	DB      *clover.DB
}

// Open opens (or reopens) a database on dir with the given backend, wrapped in a Deco.
func Open(backend, dir string) (*Handle, error) {
	raw, err := OpenStore(backend, dir)
	if err != nil {
		return nil, err
	}
	deco := NewDeco(raw)
	db, err := clover.OpenWithStore(deco)
	if err != nil {
		raw.Close()
		return nil, err
	}
	return &Handle{Backend: backend, Dir: dir, Raw: raw, Deco: deco, DB: db}, nil
}

func (h *Handle) Close() error { return h.DB.Close() }

// Reopen closes the handle (if still open) and opens the same directory again.
func (h *Handle) Reopen() error {
	h.DB.Close()
	n, err := Open(h.Backend, h.Dir)
	if err != nil {
		return err
	}
	*h = *n
	return nil
}

func OnDisk(backend string) bool { return backend != BadgerMem && backend != BadgerMemSmall }
