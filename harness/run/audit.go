package run

import (
	"encoding/json"
	"fmt"
	"sort"
	"strings"
	"time"

	"github.com/ostafen/clover/v2/document"
	"github.com/ostafen/clover/v2/index"
	"github.com/ostafen/clover/v2/store"

	"verif/harness/cs"
	"verif/harness/model"
)

// recTx is a store.Tx that only records the keys written to it.
type recTx struct{ keys [][]byte }

func (r *recTx) Set(key, value []byte) error {
	r.keys = append(r.keys, append([]byte{}, key...))
	return nil
}
func (r *recTx) Get(key []byte) ([]byte, error) { return nil, nil }
func (r *recTx) Delete(key []byte) error        { return nil }
func (r *recTx) Cursor(forward bool) (store.Cursor, error) {
	return nil, fmt.Errorf("recTx: no cursor")
}
func (r *recTx) Commit() error   { return nil }
func (r *recTx) Rollback() error { return nil }

// IndexKey returns the key under which clover's index on (coll, field) files value v for
// document id (through the public index API on a recording transaction).
func IndexKey(coll, field, id string, v interface{}) ([]byte, error) {
	tx := &recTx{}
	idx := index.CreateIndex(coll, field, index.SingleField, tx)
	if err := idx.Add(id, v, time.Duration(-1)); err != nil {
		return nil, err
	}
	if len(tx.keys) != 1 {
		return nil, fmt.Errorf("index.Add wrote %d keys", len(tx.keys))
	}
	return tx.keys[0], nil
}

type metaJSON struct {
	Size    int
	Indexes []struct {
		Field string
		Type  int
	}
}

// Audit compares the complete raw key space of the store with the key set derived from
// the model (C06): metadata with exact Size and index list, one record per live
// document holding the model document, exactly one entry per (document, index) under
// the current value, and nothing else. It returns "" or the first discrepancies.
func Audit(s store.Store, m *model.DB) string {
	items, err := Dump(s)
	if err != nil {
		return "raw dump failed: " + err.Error()
	}
	got := make(map[string][]byte, len(items))
	for _, it := range items {
		got[string(it.Key)] = it.Value
	}
	var bad []string
	note := func(f string, a ...interface{}) {
		if len(bad) < 6 {
			bad = append(bad, fmt.Sprintf(f, a...))
		}
	}
	expected := map[string]bool{}
	for _, name := range m.CollNames() {
		c := m.Colls[name]
		mk := "coll:" + name
		expected[mk] = true
		if raw, ok := got[mk]; !ok {
			note("metadata key %q missing", mk)
		} else {
			var meta metaJSON
			if err := json.Unmarshal(raw, &meta); err != nil {
				note("metadata of %q does not decode: %v", name, err)
			} else {
				if meta.Size != len(c.Docs) {
					note("collection %q: stored Size %d, live documents %d", name, meta.Size, len(c.Docs))
				}
				fs := []string{}
				for _, in := range meta.Indexes {
					fs = append(fs, in.Field)
				}
				sort.Strings(fs)
				if strings.Join(fs, "\x00") != strings.Join(c.IndexNames(), "\x00") {
					note("collection %q: stored index list %q, model %q", name, fs, c.IndexNames())
				}
			}
		}
		for _, id := range c.Ids() {
			d := c.Docs[id]
			dk := "c:" + name + ";d:" + id
			expected[dk] = true
			raw, ok := got[dk]
			if !ok {
				note("document key %q missing", dk)
			} else if doc, err := document.Decode(raw); err != nil {
				note("document %q does not decode: %v", dk, err)
			} else if g := FromDocument(doc); !cs.StrictEqual(map[string]interface{}(g), map[string]interface{}(d)) {
				note("document %q holds %s, model %s", dk, cs.Show(g), cs.Show(d))
			}
			for _, f := range c.IndexNames() {
				k, err := IndexKey(name, f, id, model.Get(d, f))
				if err != nil {
					note("index key for %q.%q of %q cannot be derived: %v", name, f, id, err)
					continue
				}
				expected[string(k)] = true
				v, ok := got[string(k)]
				if !ok {
					note("index entry missing: %q (document %q, field %q = %s)", k, id, f, cs.Show(model.Get(d, f)))
				} else if len(v) != 0 {
					note("index entry %q has a non-empty value", k)
				}
			}
		}
	}
	for _, it := range items {
		if !expected[string(it.Key)] {
			note("stray key %q", it.Key)
		}
	}
	if len(bad) == 0 {
		return ""
	}
	return strings.Join(bad, "; ")
}
