package run

import (
	"errors"
	"fmt"
	"os"
	"runtime/debug"
	"sort"
	"strconv"
	"strings"
	"time"

	clover "github.com/ostafen/clover/v2"
	"github.com/ostafen/clover/v2/document"
	"github.com/ostafen/clover/v2/query"

	"verif/harness/cs"
)

// CallDeadline bounds every single clover call (C20: never blocks forever).
var CallDeadline = func() time.Duration {
	if s := os.Getenv("VERIF_CALL_DEADLINE_S"); s != "" {
		if n, err := strconv.Atoi(s); err == nil && n > 0 {
			return time.Duration(n) * time.Second
		}
	}
	return 30 * time.Second
}()

// ErrName maps an error to its backend-independent name.
func ErrName(err error) string {
	switch {
	case err == nil:
		return ""
	case errors.Is(err, clover.ErrCollectionExist):
		return "ErrCollectionExist"
	case errors.Is(err, clover.ErrCollectionNotExist):
		return "ErrCollectionNotExist"
	case errors.Is(err, clover.ErrIndexExist):
		return "ErrIndexExist"
	case errors.Is(err, clover.ErrIndexNotExist):
		return "ErrIndexNotExist"
	case errors.Is(err, clover.ErrDocumentNotExist):
		return "ErrDocumentNotExist"
	case errors.Is(err, clover.ErrDuplicateKey):
		return "ErrDuplicateKey"
	}
	return "error: " + err.Error()
}

// Guard runs f with recover and the per-call deadline.
func Guard(f func(out *cs.Outcome)) *cs.Outcome {
	done := make(chan *cs.Outcome, 1)
	go func() {
		out := &cs.Outcome{}
		defer func() {
			if r := recover(); r != nil {
				st := string(debug.Stack())
				// keep the frames below the panic only
				if i := strings.Index(st, "panic("); i >= 0 {
					st = st[i:]
				}
				if len(st) > 1500 {
					st = st[:1500]
				}
				done <- &cs.Outcome{Err: fmt.Sprintf("panic: %v\n%s", r, st)}
				return
			}
			done <- out
		}()
		f(out)
	}()
	select {
	case out := <-done:
		return out
	case <-time.After(CallDeadline):
		return &cs.Outcome{Err: "hang"}
	}
}

// MakeUpdater turns an updater description into a clover update function that records
// what it was called with.
func MakeUpdater(u *cs.Updater, out *cs.Outcome, keepDocs bool) func(doc *document.Document) *document.Document {
	return func(doc *document.Document) *document.Document {
		out.Calls++
		out.CbIds = append(out.CbIds, doc.ObjectId())
		if keepDocs {
			out.CbDocs = append(out.CbDocs, FromDocument(doc))
		}
		switch u.Kind {
		case "delete":
			return nil
		case "ident":
			return doc
		case "set":
			n := doc.Copy()
			n.Set(u.Field, cs.Clone(u.Value.X))
			return n
		case "inplace":
			doc.Set(u.Field, cs.Clone(u.Value.X))
			return doc
		case "setmany":
			n := doc.Copy()
			ks := make([]string, 0, len(u.Values))
			for k := range u.Values {
				ks = append(ks, k)
			}
			sort.Strings(ks)
			for _, k := range ks {
				n.Set(k, cs.Clone(u.Values[k].X))
			}
			return n
		case "poison":
			n := doc.Copy()
			n.Set(u.Field, cs.Clone(u.Value.X))
			if uv, ok := doc.Get("u").(int64); ok && uv == u.N {
				n.Set("_expiresAt", "never")
			}
			return n
		case "incr":
			n := doc.Copy()
			switch x := n.Get(u.Field).(type) {
			case int64:
				n.Set(u.Field, cs.Incr(x, u.N))
			case uint64:
				n.Set(u.Field, cs.Incr(int64(x), u.N))
			case float64:
				n.Set(u.Field, x+float64(u.N))
			}
			return n
		}
		panic("unknown updater " + u.Kind)
	}
}

// Exec performs one operation (ids resolved) on db and reports the outcome.
func Exec(db *clover.DB, op *cs.Op) *cs.Outcome {
	return Guard(func(out *cs.Outcome) { exec(db, op, out) })
}

// ExecDirect performs the operation on the calling goroutine, without recover and
// deadline (crash worker: the thread is pinned for syscall-level fault injection).
func ExecDirect(db *clover.DB, op *cs.Op) *cs.Outcome {
	out := &cs.Outcome{}
	exec(db, op, out)
	return out
}

func exec(db *clover.DB, op *cs.Op, out *cs.Outcome) {
	var err error
	var q *query.Query
	if op.Q != nil {
		// the query object is the caller's: no call may alter it (criteria, literals, window, sort)
		q = BuildQuery(op.Q)
		d0 := QueryDigest(q)
		defer func() {
			if d := QueryDigest(q); d != d0 && out.ArgBad == "" {
				out.ArgBad = "the query object read " + d0 + " before the call and " + d + " after it"
			}
		}()
	}
	switch op.Kind {
	case "close":
		err = db.Close()
	case "createcoll":
		err = db.CreateCollection(op.Coll)
	case "dropcoll":
		err = db.DropCollection(op.Coll)
	case "hascoll":
		out.B, err = db.HasCollection(op.Coll)
	case "listcolls":
		out.Names, err = db.ListCollections()
	case "insert", "insertone", "save":
		docs := make([]*document.Document, len(op.Docs))
		before := make([]cs.Doc, len(op.Docs))
		var template map[string]interface{}
		for i, d := range op.Docs {
			if _, has := d["_id"]; !has && i > 0 && cs.StrictEqual(map[string]interface{}(d), map[string]interface{}(op.Docs[i-1])) {
				// equal id-less documents of one batch are built from one Go map, the way a caller
				// stamps documents out of a template
				docs[i] = document.NewDocumentOf(template)
			} else {
				template = map[string]interface{}(cs.CloneDoc(d))
				docs[i] = document.NewDocumentOf(template)
			}
			if docs[i] == nil {
				docs[i] = document.NewDocument()
			}
			before[i] = FromDocument(docs[i])
		}
		defer func() {
			// the documents handed in are the caller's: apart from a missing _id being assigned they
			// must read the same after the call (no foreign types, no rewritten members)
			for i, doc := range docs {
				after := FromDocument(doc)
				if id, had := before[i]["_id"]; !had || id == "" {
					delete(after, "_id")
					delete(before[i], "_id")
				}
				if !cs.StrictEqual(map[string]interface{}(before[i]), map[string]interface{}(after)) {
					out.ArgBad = fmt.Sprintf("document %d of the call read %s before and %s after it", i, cs.Show(before[i]), cs.Show(after))
					return
				}
			}
		}()
		switch op.Kind {
		case "insert":
			err = db.Insert(op.Coll, docs...)
		case "insertone":
			out.Ret, err = db.InsertOne(op.Coll, docs[0])
		case "save":
			if id, has := op.Docs[0]["_id"]; has && id != "" && cs.Hash(op.Docs[0])%2 == 0 && document.NewDocumentOf(map[string]interface{}(cs.CloneDoc(op.Docs[0]))) != nil {
				// Save accepts any document-like value: here the plain map instead of a *Document
				// (only when the _id is supplied, so that the stored id is known)
				plain := map[string]interface{}(cs.CloneDoc(op.Docs[0]))
				shown := cs.Show(Canon(plain))
				err = db.Save(op.Coll, plain)
				if after := cs.Show(Canon(plain)); after != shown {
					out.ArgBad = "the map given to Save read " + shown + " before the call and " + after + " after it"
				}
			} else {
				err = db.Save(op.Coll, docs[0])
			}
		}
		out.Ids = make([]string, len(docs))
		for i, d := range docs {
			out.Ids[i] = d.ObjectId()
		}
	case "replace":
		rd := ToDocument(op.Docs[0])
		before := FromDocument(rd)
		err = db.ReplaceById(op.Coll, op.Id.Lit, rd)
		if after := FromDocument(rd); !cs.StrictEqual(map[string]interface{}(before), map[string]interface{}(after)) {
			out.ArgBad = "the replacement document read " + cs.Show(before) + " before the call and " + cs.Show(after) + " after it"
		}
	case "updatebyid":
		err = db.UpdateById(op.Coll, op.Id.Lit, MakeUpdater(op.Upd, out, true))
	case "update":
		m := make(map[string]interface{}, len(op.UpdMap))
		for k, v := range op.UpdMap {
			m[k] = cs.Clone(v.X)
		}
		before := cs.Show(Canon(m))
		err = db.Update(q, m)
		if after := cs.Show(Canon(m)); after != before {
			out.ArgBad = "the update map read " + before + " before the call and " + after + " after it"
		}
	case "updatefunc":
		err = db.UpdateFunc(q, MakeUpdater(op.Upd, out, true))
	case "delete":
		err = db.Delete(q)
	case "deletebyid":
		err = db.DeleteById(op.Coll, op.Id.Lit)
	case "find":
		var docs []*document.Document
		docs, err = db.FindAll(q)
		out.Docs = FromDocuments(docs)
	case "count":
		out.N, err = db.Count(q)
	case "exists":
		out.B, err = db.Exists(q)
	case "findfirst":
		var doc *document.Document
		doc, err = db.FindFirst(q)
		if doc != nil {
			out.Docs = []cs.Doc{FromDocument(doc)}
		}
	case "iterate":
		// IterateDocs is the public engine under FindAll/ForEach/Count: it visits the FindAll sequence
		err = db.IterateDocs(q, func(doc *document.Document) error {
			out.Calls++
			out.Docs = append(out.Docs, FromDocument(doc))
			return nil
		})
	case "foreach":
		err = db.ForEach(q, func(doc *document.Document) bool {
			out.Calls++
			out.Docs = append(out.Docs, FromDocument(doc))
			return !(op.StopAt > 0 && out.Calls >= op.StopAt)
		})
	case "findbyid":
		var doc *document.Document
		doc, err = db.FindById(op.Coll, op.Id.Lit)
		if doc != nil {
			out.Docs = []cs.Doc{FromDocument(doc)}
		}
	case "createindex":
		err = db.CreateIndex(op.Coll, op.Field)
	case "dropindex":
		err = db.DropIndex(op.Coll, op.Field)
	case "hasindex":
		out.B, err = db.HasIndex(op.Coll, op.Field)
	case "listindexes":
		infos, e := db.ListIndexes(op.Coll)
		err = e
		for _, in := range infos {
			out.Names = append(out.Names, in.Field)
		}
	case "createbyquery":
		err = db.CreateCollectionByQuery(op.Coll, q)
	case "storm":
		// many cheap calls in a row (used after Close: every one must return promptly)
		for i := 0; i < 160 && err == nil; i++ {
			_, e1 := db.HasCollection(op.Coll)
			_, e2 := db.FindAll(BuildQuery(&cs.Query{Coll: op.Coll}))
			e3 := db.CreateCollection(op.Coll)
			_ = e1
			_ = e2
			_ = e3
		}
	case "export":
		err = db.ExportCollection(op.Coll, op.Path)
	case "import":
		err = db.ImportCollection(op.Coll, op.Path)
	default:
		panic("run.Exec: unknown op kind " + op.Kind)
	}
	out.Err = ErrName(err)
}
