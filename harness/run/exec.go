package run

import (
	"errors"
	"fmt"
	"os"
	"runtime/debug"
	"sort"
	"strconv"
	"strings"
	"time"

	clover "github.com/ostafen/clover/v2"
	"github.com/ostafen/clover/v2/document"

	"verif/harness/cs"
)

// CallDeadline bounds every single clover call (C20: never blocks forever).
var CallDeadline = func() time.Duration {
	if s := os.Getenv("VERIF_CALL_DEADLINE_S"); s != "" {
		if n, err := strconv.Atoi(s); err == nil && n > 0 {
			return time.Duration(n) * time.Second
		}
	}
	return 30 * time.Second
}()

// ErrName maps an error to its backend-independent name.
func ErrName(err error) string {
	switch {
	case err == nil:
		return ""
	case errors.Is(err, clover.ErrCollectionExist):
		return "ErrCollectionExist"
	case errors.Is(err, clover.ErrCollectionNotExist):
		return "ErrCollectionNotExist"
	case errors.Is(err, clover.ErrIndexExist):
		return "ErrIndexExist"
	case errors.Is(err, clover.ErrIndexNotExist):
		return "ErrIndexNotExist"
	case errors.Is(err, clover.ErrDocumentNotExist):
		return "ErrDocumentNotExist"
	case errors.Is(err, clover.ErrDuplicateKey):
		return "ErrDuplicateKey"
	}
	return "error: " + err.Error()
}

// Guard runs f with recover and the per-call deadline.
func Guard(f func(out *cs.Outcome)) *cs.Outcome {
	done := make(chan *cs.Outcome, 1)
	go func() {
		out := &cs.Outcome{}
		defer func() {
			if r := recover(); r != nil {
				st := string(debug.Stack())
				// keep the frames below the panic only
				if i := strings.Index(st, "panic("); i >= 0 {
					st = st[i:]
				}
				if len(st) > 1500 {
					st = st[:1500]
				}
				done <- &cs.Outcome{Err: fmt.Sprintf("panic: %v\n%s", r, st)}
				return
			}
			done <- out
		}()
		f(out)
	}()
	select {
	case out := <-done:
		return out
	case <-time.After(CallDeadline):
		return &cs.Outcome{Err: "hang"}
	}
}

// MakeUpdater turns an updater description into a clover update function that records
// what it was called with.
func MakeUpdater(u *cs.Updater, out *cs.Outcome, keepDocs bool) func(doc *document.Document) *document.Document {
	return func(doc *document.Document) *document.Document {
		out.Calls++
		out.CbIds = append(out.CbIds, doc.ObjectId())
		if keepDocs {
			out.CbDocs = append(out.CbDocs, FromDocument(doc))
		}
		switch u.Kind {
		case "delete":
			return nil
		case "ident":
			return doc
		case "set":
			n := doc.Copy()
			n.Set(u.Field, cs.Clone(u.Value.X))
			return n
		case "inplace":
			doc.Set(u.Field, cs.Clone(u.Value.X))
			return doc
		case "setmany":
			n := doc.Copy()
			ks := make([]string, 0, len(u.Values))
			for k := range u.Values {
				ks = append(ks, k)
			}
			sort.Strings(ks)
			for _, k := range ks {
				n.Set(k, cs.Clone(u.Values[k].X))
			}
			return n
		case "poison":
			n := doc.Copy()
			n.Set(u.Field, cs.Clone(u.Value.X))
			if uv, ok := doc.Get("u").(int64); ok && uv == u.N {
				n.Set("_expiresAt", "never")
			}
			return n
		case "incr":
			n := doc.Copy()
			switch x := n.Get(u.Field).(type) {
			case int64:
				n.Set(u.Field, x+u.N)
			case uint64:
				n.Set(u.Field, int64(x)+u.N)
			case float64:
				n.Set(u.Field, x+float64(u.N))
			}
			return n
		}
		panic("unknown updater " + u.Kind)
	}
}

// Exec performs one operation (ids resolved) on db and reports the outcome.
func Exec(db *clover.DB, op *cs.Op) *cs.Outcome {
	return Guard(func(out *cs.Outcome) { exec(db, op, out) })
}

// ExecDirect performs the operation on the calling goroutine, without recover and
// deadline (crash worker: the thread is pinned for syscall-level fault injection).
func ExecDirect(db *clover.DB, op *cs.Op) *cs.Outcome {
	out := &cs.Outcome{}
	exec(db, op, out)
	return out
}

func exec(db *clover.DB, op *cs.Op, out *cs.Outcome) {
	var err error
	switch op.Kind {
	case "close":
		err = db.Close()
	case "createcoll":
		err = db.CreateCollection(op.Coll)
	case "dropcoll":
		err = db.DropCollection(op.Coll)
	case "hascoll":
		out.B, err = db.HasCollection(op.Coll)
	case "listcolls":
		out.Names, err = db.ListCollections()
	case "insert", "insertone", "save":
		docs := make([]*document.Document, len(op.Docs))
		for i, d := range op.Docs {
			docs[i] = ToDocument(d)
		}
		switch op.Kind {
		case "insert":
			err = db.Insert(op.Coll, docs...)
		case "insertone":
			out.Ret, err = db.InsertOne(op.Coll, docs[0])
		case "save":
			err = db.Save(op.Coll, docs[0])
		}
		out.Ids = make([]string, len(docs))
		for i, d := range docs {
			out.Ids[i] = d.ObjectId()
		}
	case "replace":
		err = db.ReplaceById(op.Coll, op.Id.Lit, ToDocument(op.Docs[0]))
	case "updatebyid":
		err = db.UpdateById(op.Coll, op.Id.Lit, MakeUpdater(op.Upd, out, true))
	case "update":
		m := make(map[string]interface{}, len(op.UpdMap))
		for k, v := range op.UpdMap {
			m[k] = cs.Clone(v.X)
		}
		err = db.Update(BuildQuery(op.Q), m)
	case "updatefunc":
		err = db.UpdateFunc(BuildQuery(op.Q), MakeUpdater(op.Upd, out, true))
	case "delete":
		err = db.Delete(BuildQuery(op.Q))
	case "deletebyid":
		err = db.DeleteById(op.Coll, op.Id.Lit)
	case "find":
		var docs []*document.Document
		docs, err = db.FindAll(BuildQuery(op.Q))
		out.Docs = FromDocuments(docs)
	case "count":
		out.N, err = db.Count(BuildQuery(op.Q))
	case "exists":
		out.B, err = db.Exists(BuildQuery(op.Q))
	case "findfirst":
		var doc *document.Document
		doc, err = db.FindFirst(BuildQuery(op.Q))
		if doc != nil {
			out.Docs = []cs.Doc{FromDocument(doc)}
		}
	case "foreach":
		err = db.ForEach(BuildQuery(op.Q), func(doc *document.Document) bool {
			out.Calls++
			out.Docs = append(out.Docs, FromDocument(doc))
			return !(op.StopAt > 0 && out.Calls >= op.StopAt)
		})
	case "findbyid":
		var doc *document.Document
		doc, err = db.FindById(op.Coll, op.Id.Lit)
		if doc != nil {
			out.Docs = []cs.Doc{FromDocument(doc)}
		}
	case "createindex":
		err = db.CreateIndex(op.Coll, op.Field)
	case "dropindex":
		err = db.DropIndex(op.Coll, op.Field)
	case "hasindex":
		out.B, err = db.HasIndex(op.Coll, op.Field)
	case "listindexes":
		infos, e := db.ListIndexes(op.Coll)
		err = e
		for _, in := range infos {
			out.Names = append(out.Names, in.Field)
		}
	case "createbyquery":
		err = db.CreateCollectionByQuery(op.Coll, BuildQuery(op.Q))
	case "storm":
		// many cheap calls in a row (used after Close: every one must return promptly)
		for i := 0; i < 160 && err == nil; i++ {
			_, e1 := db.HasCollection(op.Coll)
			_, e2 := db.FindAll(BuildQuery(&cs.Query{Coll: op.Coll}))
			e3 := db.CreateCollection(op.Coll)
			_ = e1
			_ = e2
			_ = e3
		}
	case "export":
		err = db.ExportCollection(op.Coll, op.Path)
	case "import":
		err = db.ImportCollection(op.Coll, op.Path)
	default:
		panic("run.Exec: unknown op kind " + op.Kind)
	}
	out.Err = ErrName(err)
}
