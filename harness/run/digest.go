package run

import (
	"fmt"
	"reflect"
	"strings"

	"github.com/ostafen/clover/v2/query"
)

type digestVisitor struct{}

func (digestVisitor) VisitUnaryCriteria(c *query.UnaryCriteria) interface{} {
	v := ""
	if c.OpType == query.FunctionOp {
		v = fmt.Sprintf("func@%x", reflect.ValueOf(c.Value).Pointer())
	} else if query.IsField(c.Value) {
		v = fmt.Sprintf("field%+v", reflect.ValueOf(c.Value).Elem())
	} else {
		v = fmt.Sprintf("%T:%#v", c.Value, c.Value)
	}
	return fmt.Sprintf("U(%d,%q,%s)", c.OpType, c.Field, v)
}

func (d digestVisitor) VisitNotCriteria(c *query.NotCriteria) interface{} {
	return "N(" + c.C.Accept(d).(string) + ")"
}

func (d digestVisitor) VisitBinaryCriteria(c *query.BinaryCriteria) interface{} {
	return fmt.Sprintf("B(%d,%s,%s)", c.OpType, c.C1.Accept(d).(string), c.C2.Accept(d).(string))
}

// CritDigest renders the structure of a criteria tree (operators, fields, operand values).
func CritDigest(c query.Criteria) string {
	if c == nil {
		return "<nil>"
	}
	return c.Accept(digestVisitor{}).(string)
}

// QueryDigest renders everything observable about a query object.
func QueryDigest(q *query.Query) string {
	var sb strings.Builder
	fmt.Fprintf(&sb, "coll=%q skip=%d limit=%d sort=%v crit=%s critptr=%p", q.Collection(), q.GetSkip(), q.GetLimit(), q.SortOptions(), CritDigest(q.Criteria()), q.Criteria())
	return sb.String()
}
