package run

import (
	"fmt"
	"reflect"
	"sort"
	"strings"

	"github.com/ostafen/clover/v2/query"
)

type digestVisitor struct{}

func (digestVisitor) VisitUnaryCriteria(c *query.UnaryCriteria) interface{} {
	v := ""
	if c.OpType == query.FunctionOp {
		v = fmt.Sprintf("func@%x", reflect.ValueOf(c.Value).Pointer())
	} else if query.IsField(c.Value) {
		v = fmt.Sprintf("field%+v", reflect.ValueOf(c.Value).Elem())
	} else {
		v = typedShow(c.Value)
	}
	return fmt.Sprintf("U(%d,%q,%s)", c.OpType, c.Field, v)
}

func (d digestVisitor) VisitNotCriteria(c *query.NotCriteria) interface{} {
	return "N(" + c.C.Accept(d).(string) + ")"
}

func (d digestVisitor) VisitBinaryCriteria(c *query.BinaryCriteria) interface{} {
	return fmt.Sprintf("B(%d,%s,%s)", c.OpType, c.C1.Accept(d).(string), c.C2.Accept(d).(string))
}

// CritDigest renders the structure of a criteria tree (operators, fields, operand values).
func CritDigest(c query.Criteria) string {
	if c == nil {
		return "<nil>"
	}
	return c.Accept(digestVisitor{}).(string)
}

// QueryDigest renders everything observable about a query object.
func QueryDigest(q *query.Query) string {
	var sb strings.Builder
	fmt.Fprintf(&sb, "coll=%q skip=%d limit=%d sort=%v crit=%s critptr=%p", q.Collection(), q.GetSkip(), q.GetLimit(), q.SortOptions(), CritDigest(q.Criteria()), q.Criteria())
	return sb.String()
}

// typedShow renders a literal with the Go type of every member (a literal normalised in
// place keeps its %v text: int32(1) and int64(1) both print as 1).
func typedShow(v interface{}) string {
	switch x := v.(type) {
	case []interface{}:
		parts := make([]string, len(x))
		for i, e := range x {
			parts[i] = typedShow(e)
		}
		return fmt.Sprintf("[]@%p{%s}", x, strings.Join(parts, ","))
	case map[string]interface{}:
		keys := make([]string, 0, len(x))
		for k := range x {
			keys = append(keys, k)
		}
		sort.Strings(keys)
		parts := make([]string, len(keys))
		for i, k := range keys {
			parts[i] = fmt.Sprintf("%q:%s", k, typedShow(x[k]))
		}
		return fmt.Sprintf("map@%p{%s}", x, strings.Join(parts, ","))
	}
	return fmt.Sprintf("%T:%#v", v, v)
}
