package checks

import (
	"encoding/json"
	"fmt"
	"math"
	"reflect"
	"strings"
	"testing"

	"github.com/ostafen/clover/v2/document"
	"pgregory.net/rapid"

	"verif/harness/cs"
	"verif/harness/ev"
	"verif/harness/gen"
	"verif/harness/goval"
	"verif/harness/model"
	"verif/harness/run"
	"verif/harness/sm"
)

const ruleC18 = "Go values described by a serialisable spec and built by reflection: every integer and float width, named types, strings, bools, times, pointer chains of depth 1-3 (to values, to times, nil at any level), slices, arrays, map[string]interface{}, maps keyed by a defined string type, maps with non-string keys, two distinct function-local struct types that print the same name, a hand-written struct family (rename, omitempty, nested, pointer-to-struct, embedded value and embedded pointer, json+clover tags, unexported field) and unsupported kinds (chan, func, complex128, uintptr). Each value is stored with Document.Set at a generated dotted path of a generated base document (and through NewDocumentOf for maps and structs). Oracle: reference normaliser written from the property statement; unsupported => document unchanged; Has(p), Get(p) = norm(v), every proper prefix of p is an object, unrelated paths unchanged; idempotence (Set(p, Get(p)) changes nothing); struct -> NewDocumentOf -> Unmarshal gives an equal struct. An evaluation is one value; non-trivial when the value contains a pointer, a struct or nests >= 2 levels; distinct = distinct (spec, path, base)."

type c18Case struct {
	Base cs.Doc     `json:"base"`
	Path string     `json:"path"`
	Val  goval.Spec `json:"val"`
}

// dropNilEmb removes, at any depth, a nil entry named "Emb": whether a nil embedded
// pointer contributes a nil field or nothing is not specified by the property.
func dropNilEmb(v interface{}) interface{} {
	switch x := v.(type) {
	case map[string]interface{}:
		n := map[string]interface{}{}
		for k, e := range x {
			if k == "Emb" && e == nil {
				continue
			}
			n[k] = dropNilEmb(e)
		}
		return n
	case []interface{}:
		n := make([]interface{}, len(x))
		for i, e := range x {
			n[i] = dropNilEmb(e)
		}
		return n
	}
	return v
}

func runC18(c *c18Case) *sm.Fail {
	var f *sm.Fail
	out := run.Guard(func(o *cs.Outcome) { f = c18Body(c) })
	if out.Err != "" {
		return &sm.Fail{Property: "C20", Clause: "no-panic-no-hang", Detail: "document API: " + out.Err}
	}
	return f
}

var c18Paths = []string{"v", "a", "a.b", "a.b.c", "n.a", "n.b.c", "x", "s.k", "new.deep.path", "b", "c"}

// readsAgree: Has and Get answer every path of the alphabet like the reference lookup on the
// document's own content, and reading changes nothing.
func readsAgree(doc *document.Document, when string) (string, string) {
	content := run.FromDocument(doc)
	for _, p := range c18Paths {
		wv, whas := model.Lookup(content, p)
		if got := doc.Has(p); got != whas {
			return "get-has", fmt.Sprintf("%s: Has(%q) = %v on %s, reference %v", when, p, got, cs.Show(content), whas)
		}
		if got := run.Canon(doc.Get(p)); !cs.StrictEqual(got, wv) {
			return "get-has", fmt.Sprintf("%s: Get(%q) = %s on %s, reference %s", when, p, cs.Show(got), cs.Show(content), cs.Show(wv))
		}
	}
	if now := run.FromDocument(doc); !cs.StrictEqual(map[string]interface{}(now), map[string]interface{}(content)) {
		return "get-has", fmt.Sprintf("%s: reading with Has/Get changed the document from %s to %s", when, cs.Show(content), cs.Show(now))
	}
	return "", ""
}

func c18Body(c *c18Case) *sm.Fail {
	bad := func(clause, f string, a ...interface{}) *sm.Fail {
		b, _ := json.Marshal(c.Val)
		return &sm.Fail{Property: "C18", Clause: clause, Detail: fmt.Sprintf(f, a...) + "  [value " + string(b) + " at path " + c.Path + "]"}
	}
	want, werr := goval.Expect(&c.Val)
	doc := run.ToDocument(c.Base)
	if cl, msg := readsAgree(doc, "before Set"); cl != "" {
		return bad(cl, "%s", msg)
	}
	before := run.FromDocument(doc)
	doc.Set(c.Path, goval.Build(&c.Val))
	after := run.FromDocument(doc)
	if cl, msg := readsAgree(doc, "after Set"); cl != "" && werr == nil && !hasForeign(after) {
		return bad(cl, "%s", msg)
	}
	// the other entry points of the document API: SetAll with the one pair is the same Set; Copy,
	// AsMap and ToMap show the same content; Fields, TTL and ExpiresAt answer without panicking
	doc2 := run.ToDocument(c.Base)
	doc2.SetAll(map[string]interface{}{c.Path: goval.Build(&c.Val)})
	if viaAll := run.FromDocument(doc2); !cs.StrictEqual(map[string]interface{}(viaAll), map[string]interface{}(after)) {
		return bad("setall", "SetAll({%q: v}) gives %s, Set(%q, v) gives %s", c.Path, cs.Show(viaAll), c.Path, cs.Show(after))
	}
	if cp := run.FromDocument(doc.Copy()); !cs.StrictEqual(map[string]interface{}(cp), map[string]interface{}(after)) {
		return bad("copy", "Copy() shows %s, the document %s", cs.Show(cp), cs.Show(after))
	}
	if am := cs.Doc(run.Canon(doc.AsMap()).(map[string]interface{})); !cs.StrictEqual(map[string]interface{}(am), map[string]interface{}(after)) {
		return bad("copy", "AsMap() shows %s, the document %s", cs.Show(am), cs.Show(after))
	}
	_, _, _, _ = doc.Fields(true), doc.Fields(false), doc.TTL(), doc.ExpiresAt()
	if werr != nil {
		if !cs.StrictEqual(map[string]interface{}(after), map[string]interface{}(before)) {
			return bad("unsupported", "unsupported value changed the document: before %s after %s", cs.Show(before), cs.Show(after))
		}
		return nil
	}
	if !doc.Has(c.Path) {
		return bad("set-has", "Has(%q) is false after Set", c.Path)
	}
	got := dropNilEmb(run.Canon(doc.Get(c.Path)))
	if !cs.StrictEqual(got, want) {
		return bad("normalise", "Get after Set = %s, reference normaliser %s", cs.Show(got), cs.Show(want))
	}
	// reference effect on the whole document
	exp := cs.CloneDoc(before)
	model.SetPath(exp, c.Path, want)
	aft := cs.Doc(dropDeep(map[string]interface{}(after)))
	if !cs.StrictEqual(map[string]interface{}(aft), map[string]interface{}(exp)) {
		return bad("set-paths", "document after Set = %s, expected %s (prefixes become objects, other paths unchanged)", cs.Show(after), cs.Show(exp))
	}
	parts := strings.Split(c.Path, ".")
	for i := 1; i < len(parts); i++ {
		p := strings.Join(parts[:i], ".")
		if _, isMap := doc.Get(p).(map[string]interface{}); !isMap {
			return bad("set-prefix", "prefix %q of the path is not an object after Set", p)
		}
	}
	// what Insert does with the document: encoding it for the store must leave the caller's
	// document as it is (canonical types only) and must decode to the same content
	if b, err := document.Encode(doc); err == nil {
		if now := run.FromDocument(doc); !cs.StrictEqual(map[string]interface{}(now), map[string]interface{}(after)) {
			return bad("insert-keeps-canonical", "encoding the document for the store changed it from %s to %s", cs.Show(after), cs.Show(now))
		}
		if back, err := document.Decode(b); err != nil {
			return bad("insert-keeps-canonical", "Decode(Encode(doc)) failed: %v", err)
		} else if g := dropDeep(map[string]interface{}(run.FromDocument(back))); !cs.StrictEqual(g, map[string]interface{}(aft)) {
			return bad("insert-keeps-canonical", "stored form decodes to %s, the document is %s", cs.Show(g), cs.Show(aft))
		}
	} else {
		return bad("insert-keeps-canonical", "Encode of a normalised document failed: %v", err)
	}
	// idempotence: normalising the normalised value changes nothing
	doc.Set(c.Path, doc.Get(c.Path))
	again := run.FromDocument(doc)
	if !cs.StrictEqual(map[string]interface{}(again), map[string]interface{}(after)) {
		return bad("idempotence", "Set(p, Get(p)) changed the document from %s to %s", cs.Show(after), cs.Show(again))
	}
	// NewDocumentOf for maps and structs
	if c.Val.K == "map" || c.Val.K == "nmap" || c.Val.K == "struct" || (c.Val.K == "ptr" && c.Val.Of != nil && c.Val.Of.K == "struct") {
		nd := document.NewDocumentOf(goval.Build(&c.Val))
		if nd == nil {
			return bad("newdocumentof", "NewDocumentOf returned nil for a convertible value")
		}
		if g := dropNilEmb(map[string]interface{}(run.FromDocument(nd))); !cs.StrictEqual(g, want) {
			return bad("newdocumentof", "NewDocumentOf = %s, reference %s", cs.Show(g), cs.Show(want))
		}
		sp := &c.Val
		if sp.K == "ptr" {
			sp = sp.Of
		}
		if sp.K == "struct" && jsonSafe(want) && sp.Struct != "LocalA" && sp.Struct != "LocalB" {
			orig := sp.Fields.Build(sp.Struct)
			ov := reflect.ValueOf(orig)
			if ov.Kind() == reflect.Ptr {
				ov = ov.Elem()
			}
			fresh := reflect.New(ov.Type())
			if err := nd.Unmarshal(fresh.Interface()); err != nil {
				return bad("roundtrip", "Unmarshal failed: %v", err)
			}
			if !goval.StructEqual(ov.Interface(), fresh.Elem().Interface()) {
				return bad("roundtrip", "struct -> document -> Unmarshal changed the struct: original %+v, result %+v (document %s)", ov.Interface(), fresh.Elem().Interface(), cs.Show(run.FromDocument(nd)))
			}
		}
	}
	return nil
}

func dropDeep(m map[string]interface{}) map[string]interface{} {
	return dropNilEmb(m).(map[string]interface{})
}

// jsonSafe: numbers within 2^53, finite; whole-minute zones are guaranteed by the generator.
func jsonSafe(v interface{}) bool {
	switch x := v.(type) {
	case int64:
		return x >= -(1<<53) && x <= 1<<53
	case uint64:
		return x <= 1<<53
	case float64:
		return !math.IsInf(x, 0) && !math.IsNaN(x)
	case string:
		return validUTF8(x)
	case []interface{}:
		for _, e := range x {
			if !jsonSafe(e) {
				return false
			}
		}
	case map[string]interface{}:
		for _, e := range x {
			if !jsonSafe(e) {
				return false
			}
		}
	}
	return true
}

func init() {
	replayers["c18"] = func(raw json.RawMessage) *sm.Fail {
		var c c18Case
		if err := json.Unmarshal(raw, &c); err != nil {
			return &sm.Fail{Property: "C18", Clause: "replay", Detail: err.Error()}
		}
		return runC18(&c)
	}
}

var intKinds = []string{"int", "int8", "int16", "int32", "int64", "named-int32"}
var uintKinds = []string{"uint", "uint8", "uint16", "uint32", "uint64"}

func genTimeSpec(t *rapid.T) []int64 {
	in := rapid.SampledFrom([][2]int64{{0, 0}, {981173106, 789}, {2147483647, 0}, {1700000000, 500000000}}).Draw(t, "inst")
	return []int64{in[0], in[1], int64(rapid.SampledFrom([]int{0, 7200, -27000, 3720}).Draw(t, "zone"))}
}

func genFamily(t *rapid.T) *goval.Family {
	f := &goval.Family{
		Name:    rapid.SampledFrom([]string{"", "n", "name"}).Draw(t, "name"),
		Count:   rapid.SampledFrom([]uint32{0, 1, math.MaxUint32}).Draw(t, "count"),
		A:       rapid.SampledFrom([]int8{0, 1, -128, 100}).Draw(t, "a"),
		BSet:    rapid.Bool().Draw(t, "bset"),
		BVal:    rapid.SampledFrom([]string{"", "b"}).Draw(t, "bval"),
		T:       genTimeSpec(t),
		E1:      rapid.SampledFrom([]uint16{0, 7, math.MaxUint16}).Draw(t, "e1"),
		E2:      rapid.SampledFrom([]string{"", "e"}).Draw(t, "e2"),
		TagsNil: rapid.Bool().Draw(t, "tagsnil"),
		Tags:    rapid.SampledFrom([][]string{{}, {"x"}, {"x", ""}}).Draw(t, "tags"),
		MNil:    rapid.Bool().Draw(t, "mnil"),
		MKeys:   rapid.SampledFrom([][]string{{}, {"k"}, {"k", "l"}}).Draw(t, "mkeys"),
		MVal:    rapid.IntRange(-3, 3).Draw(t, "mval"),
		PInSet:  rapid.Bool().Draw(t, "pinset"),
		PtrLvl:  rapid.IntRange(0, 2).Draw(t, "ptrlvl"),
		PtrVal:  rapid.SampledFrom([]float32{0, 1.5, -2}).Draw(t, "ptrval"),
		WhenSet: rapid.Bool().Draw(t, "whenset"),
		When:    genTimeSpec(t),
		JS:      rapid.IntRange(-2, 2).Draw(t, "js"),
		I64:     rapid.SampledFrom([]int64{0, -1, 12345, 1 << 40}).Draw(t, "i64"),
		U64:     rapid.SampledFrom([]uint64{0, 255, 1 << 40}).Draw(t, "u64"),
		F64:     rapid.SampledFrom([]float64{0, 2.5, -1e10}).Draw(t, "f64"),
		Flag:    rapid.Bool().Draw(t, "flag"),
		EmbSet:  rapid.Bool().Draw(t, "embset"),
		NList:   rapid.IntRange(0, 2).Draw(t, "nlist"),
	}
	return f
}

func genSpec(t *rapid.T, depth int) goval.Spec {
	k := rapid.IntRange(0, 23).Draw(t, "speckind")
	if depth <= 0 && k >= 12 && k <= 19 {
		k = k % 10
	}
	switch k {
	case 0:
		return goval.Spec{K: "nil"}
	case 1:
		return goval.Spec{K: rapid.SampledFrom([]string{"bool", "bool", "named-bool"}).Draw(t, "bkind"), B: rapid.Bool().Draw(t, "b")}
	case 2, 3:
		kind := rapid.SampledFrom(intKinds).Draw(t, "ikind")
		v := rapid.SampledFrom([]int64{0, 1, -1, 127, -128}).Draw(t, "ival")
		if kind == "int64" || kind == "int" {
			v = rapid.SampledFrom([]int64{0, -5, math.MaxInt64, math.MinInt64, 1 << 53}).Draw(t, "ival64")
		}
		return goval.Spec{K: kind, I: v}
	case 4, 5:
		kind := rapid.SampledFrom(uintKinds).Draw(t, "ukind")
		v := rapid.SampledFrom([]uint64{0, 1, 255}).Draw(t, "uval")
		if kind == "uint64" || kind == "uint" {
			v = rapid.SampledFrom([]uint64{0, 7, math.MaxUint64, 1 << 63}).Draw(t, "uval64")
		}
		return goval.Spec{K: kind, U: v}
	case 6:
		return goval.Spec{K: rapid.SampledFrom([]string{"float32", "float64"}).Draw(t, "fkind"), F: rapid.SampledFrom([]float64{0, 1.5, -2.25, 1e30, 0.1}).Draw(t, "fval")}
	case 7, 8:
		return goval.Spec{K: rapid.SampledFrom([]string{"string", "named-string"}).Draw(t, "skind"), S: rapid.SampledFrom([]string{"", "a", "a.b", "é"}).Draw(t, "sval")}
	case 9:
		return goval.Spec{K: "time", T: genTimeSpec(t)}
	case 10:
		return goval.Spec{K: rapid.SampledFrom([]string{"chan", "func", "complex", "uintptr"}).Draw(t, "unsup"), F: 1, U: 3}
	case 11:
		of := genSpec(t, 0)
		if of.K == "nil" {
			of = goval.Spec{K: "int", I: 1}
		}
		return goval.Spec{K: "nilptr", Depth: rapid.IntRange(1, 3).Draw(t, "nildepth"), Of: &of}
	case 12, 13, 14:
		of := genSpec(t, depth-1)
		for of.K == "nil" {
			of = goval.Spec{K: "nilptr", Depth: 1, Of: &goval.Spec{K: "string"}}
		}
		s := goval.Spec{K: "ptr", Of: &of}
		for i := rapid.IntRange(0, 2).Draw(t, "ptrextra"); i > 0; i-- {
			inner := s
			s = goval.Spec{K: "ptr", Of: &inner}
		}
		return s
	case 15, 16:
		n := rapid.IntRange(0, 3).Draw(t, "nelems")
		s := goval.Spec{K: rapid.SampledFrom([]string{"slice", "array", "iface-slice"}).Draw(t, "seqkind")}
		homog := rapid.Bool().Draw(t, "homog")
		var first goval.Spec
		for i := 0; i < n; i++ {
			e := genSpec(t, depth-1)
			if homog && i > 0 && (first.K == "string" || first.K == "int16" || first.K == "float64") {
				e = first
			}
			if i == 0 {
				first = e
			}
			s.Elems = append(s.Elems, e)
		}
		return s
	case 17, 18:
		n := rapid.IntRange(0, 3).Draw(t, "nkeys")
		s := goval.Spec{K: rapid.SampledFrom([]string{"map", "map", "nmap"}).Draw(t, "mapkind")}
		seen := map[string]bool{}
		for i := 0; i < n; i++ {
			key := rapid.SampledFrom([]string{"a", "b", "ab", "", "a.b"}).Draw(t, "mkey")
			if seen[key] {
				continue
			}
			seen[key] = true
			s.Keys = append(s.Keys, key)
			s.Elems = append(s.Elems, genSpec(t, depth-1))
		}
		return s
	case 19:
		s := goval.Spec{K: "imap"}
		for i := rapid.IntRange(0, 2).Draw(t, "nikeys"); i > 0; i-- {
			s.Elems = append(s.Elems, genSpec(t, 0))
		}
		return s
	default:
		return goval.Spec{K: "struct", Struct: rapid.SampledFrom([]string{"Inner", "PtrInner", "Flat", "Outer", "Outer", "EmbPtr", "Tagged", "Cross", "LocalA", "LocalB", "LocalB", "LocalA", "Untagged", "Untagged", "EmbHidden"}).Draw(t, "struct"), Fields: genFamily(t)}
	}
}

func unsupportedInside(s *goval.Spec) bool {
	_, err := goval.Expect(s)
	return err != nil
}

func TestC18(t *testing.T) {
	check(t, "C18", cases(60000, 2500000), 0, propC18(collector("C18", ruleC18)))
}

func propC18(col *ev.Collector) func(rt *rapid.T) { return propC18For("C18", col) }

// propC18For runs the C18 case for another check (C20 uses it as its document-API part).
func propC18For(owner string, col *ev.Collector) func(rt *rapid.T) {
	paths := c18Paths
	dcfg := gen.DocCfg{Val: gen.ValCfg{MaxDepth: 1}, PAbsent: 3, Fields: []string{"x", "n", "s"}}
	return func(rt *rapid.T) {
		base := gen.Fields(dcfg, 0).Draw(rt, "base")
		switch rapid.IntRange(0, 3).Draw(rt, "a-shape") {
		case 0:
			base["a"] = map[string]interface{}{"b": map[string]interface{}{"c": int64(1), "d": "keep"}, "e": "keep"}
		case 1:
			base["a"] = int64(5)
			if rapid.Bool().Draw(rt, "decoy") {
				// top-level fields named like the inner components of the paths a.b / a.b.c
				base["b"] = "decoy"
				base["c"] = int64(9)
			}
		case 2:
			base["a"] = map[string]interface{}{"b": "scalar"}
		}
		c := &c18Case{Base: base, Path: rapid.SampledFrom(paths).Draw(rt, "path"), Val: genSpec(rt, 3)}
		if f := runC18(c); f != nil {
			violate(rt, owner, "c18", c, f)
		}
		ptr, strct, depth := c.Val.Stats()
		cl := []string{"kind:" + c.Val.K, fmt.Sprintf("pathlen:%d", len(strings.Split(c.Path, ".")))}
		if c.Val.K == "struct" {
			cl = append(cl, "struct:"+c.Val.Struct)
		}
		if unsupportedInside(&c.Val) {
			cl = append(cl, "unsupported")
		}
		col.Case(ptr || strct || depth >= 2, hashOf(c), func() interface{} { return c }, cl...)
	}
}

// hasForeign: the document holds a value outside the canonical types (reported by the
// normalise clause with a better message).
func hasForeign(v interface{}) bool {
	switch x := v.(type) {
	case run.Foreign:
		return true
	case cs.Doc:
		return hasForeign(map[string]interface{}(x))
	case map[string]interface{}:
		for _, e := range x {
			if hasForeign(e) {
				return true
			}
		}
	case []interface{}:
		for _, e := range x {
			if hasForeign(e) {
				return true
			}
		}
	}
	return false
}
