package checks

import (
	"encoding/json"
	"fmt"
	"os"
	"runtime"
	"strings"
	"sync"
	"sync/atomic"
	"testing"
	"time"

	"github.com/anishathalye/porcupine"
	"github.com/ostafen/clover/v2/document"
	"pgregory.net/rapid"

	"verif/harness/cs"
	"verif/harness/ev"
	"verif/harness/gen"
	"verif/harness/model"
	"verif/harness/run"
	"verif/harness/sm"
)

const ruleC07 = "concurrent programs: after a generated sequential setup (1-2 collections, 3-8 documents, optional indexes) 2-8 goroutines each issue 2-6 generated operations (Insert batches with supplied ids, UpdateById, bulk Update/UpdateFunc/Delete, DeleteById, CreateIndex, DropIndex, CreateCollection, DropCollection, FindAll, Count, FindById, ListCollections) on one handle over bbolt or badger; a store decorator consults a drawn bit vector before every store call and yields (Gosched) or sleeps up to 200 microseconds to perturb the schedule. The recorded call/return history with result digests must be linearizable with respect to the reference model (porcupine; a store conflict error is legal only as a no-op; a checker timeout is inconclusive, never a violation); a sequential epilogue (Count without criteria, full and index-ordered scans, catalogs) is part of every history, so drift left behind by a race is seen too. A second phase shares one *query.Query / Criteria between goroutines that derive queries from it concurrently. The same cases run in a -race build; any data-race report is a violation. A fourth part lets 2-8 goroutines insert batches of documents without _id at the same moment: every insert succeeds, every assigned id is a valid UUID handed out once, the collection holds exactly those documents (also in the -race build). A third part runs one writer issuing bulk Updates over a collection of 257-1100 documents against readers that export, scan and index-scan it: every single ExportCollection / FindAll result must show one generation for all documents. An evaluation is one concurrent program; non-trivial when at least two operations overlapped in real time on the same collection and one of them was a write; distinct = distinct programs (setup, operations, schedule bits)."

type c07Op struct {
	Client int         `json:"client"`
	Op     cs.Op       `json:"op"`
	Call   int64       `json:"call"`
	Return int64       `json:"return"`
	Out    *cs.Outcome `json:"out"`
}

type c07History struct {
	Backend string  `json:"backend"`
	Setup   []cs.Op `json:"setup"`
	Ops     []c07Op `json:"ops"`
}

type c07Program struct {
	Backend string    `json:"backend"`
	Setup   []cs.Op   `json:"setup"`
	Clients [][]cs.Op `json:"clients"`
	Bits    []byte    `json:"bits"`
}

type c07State struct {
	db     *model.DB
	digest string
}

func digestModel(m *model.DB) string {
	var sb strings.Builder
	for _, n := range m.CollNames() {
		c := m.Colls[n]
		fmt.Fprintf(&sb, "%q idx%v{", n, c.IndexNames())
		for _, id := range c.Ids() {
			sb.WriteString(cs.Show(c.Docs[id]))
			sb.WriteByte(';')
		}
		sb.WriteByte('}')
	}
	return sb.String()
}

func isConflict(err string) bool {
	return strings.Contains(err, "Conflict") || strings.Contains(err, "conflict")
}

func c07Model(init *model.DB) porcupine.Model {
	return porcupine.Model{
		Init: func() interface{} { return &c07State{db: init, digest: digestModel(init)} },
		Step: func(state, input, output interface{}) (bool, interface{}) {
			st := state.(*c07State)
			op := input.(*cs.Op)
			out := output.(*cs.Outcome)
			if isConflict(out.Err) {
				// rejected by the store because of a write conflict: legal only as a no-op
				return true, st
			}
			next := st.db.Clone()
			if msg := next.Step(op, out); msg != "" {
				return false, st
			}
			if next.NeedResync {
				return false, st
			}
			return true, &c07State{db: next, digest: digestModel(next)}
		},
		Equal: func(a, b interface{}) bool { return a.(*c07State).digest == b.(*c07State).digest },
		DescribeOperation: func(input, output interface{}) string {
			return clipStr(input.(*cs.Op).String(), 200) + " -> " + clipStr(fmt.Sprintf("%+v", *output.(*cs.Outcome)), 200)
		},
	}
}

// checkHistory decides linearizability of a recorded history.
func checkHistory(h *c07History) (verdict string, fail *sm.Fail) {
	m := model.New()
	for i := range h.Setup {
		// the setup ran sequentially and was checked when it ran; replay it on the model
		out := &cs.Outcome{}
		if h.Setup[i].Kind == "insert" {
			for _, d := range h.Setup[i].Docs {
				id, _ := d["_id"].(string)
				out.Ids = append(out.Ids, id)
			}
		}
		if msg := m.Step(&h.Setup[i], out); msg != "" {
			return "harness", &sm.Fail{Property: "C07", Clause: "harness", Detail: "setup does not replay on the model: " + msg}
		}
	}
	ops := make([]porcupine.Operation, len(h.Ops))
	for i := range h.Ops {
		o := &h.Ops[i]
		if strings.HasPrefix(o.Out.Err, "panic") || o.Out.Err == "hang" {
			return "illegal", &sm.Fail{Property: "C20", Clause: "no-panic-no-hang", Detail: fmt.Sprintf("concurrent %s: %s", o.Op.Kind, o.Out.Err)}
		}
		in := sm.Materialize(o.Op)
		ops[i] = porcupine.Operation{ClientId: o.Client, Input: &in, Call: o.Call, Output: o.Out, Return: o.Return}
	}
	res := porcupine.CheckOperationsTimeout(c07Model(m), ops, 30*time.Second)
	switch res {
	case porcupine.Ok:
		return "ok", nil
	case porcupine.Unknown:
		return "unknown", nil
	}
	var sb strings.Builder
	for _, o := range h.Ops {
		fmt.Fprintf(&sb, "\n  client %d [%d,%d] %s -> err=%q n=%d docs=%d", o.Client, o.Call, o.Return, clipStr(o.Op.String(), 160), clipStr(o.Out.Err, 60), o.Out.N, len(o.Out.Docs))
	}
	return "illegal", &sm.Fail{Property: "C07", Clause: "linearizability", Detail: "the recorded history has no sequential explanation consistent with real time:" + sb.String()}
}

// runProgram07 executes a concurrent program and records the history.
func runProgram07(p *c07Program) (*c07History, *sm.Fail) {
	s, err := sm.NewSession("C07", "c07", p.Backend)
	if err != nil {
		return nil, &sm.Fail{Property: "C07", Clause: "harness", Detail: err.Error()}
	}
	defer s.Close()
	for _, op := range p.Setup {
		if f := s.Do(op); f != nil {
			return nil, f
		}
	}
	var bitIdx int64
	s.H.Deco.Yield = func() {
		if len(p.Bits) == 0 {
			return
		}
		i := atomic.AddInt64(&bitIdx, 1)
		b := p.Bits[int(i)%len(p.Bits)]
		switch {
		case b&3 == 1:
			runtime.Gosched()
		case b&3 == 2:
			time.Sleep(time.Duration(b>>2) * 3 * time.Microsecond)
		}
	}
	h := &c07History{Backend: p.Backend, Setup: p.Setup}
	var mu sync.Mutex
	var wg sync.WaitGroup
	start := time.Now()
	gate := make(chan struct{})
	for ci, ops := range p.Clients {
		wg.Add(1)
		go func(ci int, ops []cs.Op) {
			defer wg.Done()
			<-gate
			for i := range ops {
				r := sm.Materialize(ops[i])
				call := time.Since(start).Nanoseconds()
				out := run.Exec(s.H.DB, &r)
				ret := time.Since(start).Nanoseconds()
				mu.Lock()
				h.Ops = append(h.Ops, c07Op{Client: ci, Op: ops[i], Call: call, Return: ret, Out: out})
				mu.Unlock()
			}
		}(ci, ops)
	}
	close(gate)
	wg.Wait()
	s.H.Deco.Yield = nil
	// a sequential epilogue by one more client: counter-backed Count, full scans and catalogs of
	// every collection. They are part of the history, so a drifted counter, a lost document or a
	// duplicated index entry left behind by a race has no sequential explanation.
	epilogue := []cs.Op{{Kind: "listcolls"}}
	for _, name := range []string{"A", "B", "C", "D"} {
		epilogue = append(epilogue, cs.Op{Kind: "count", Q: &cs.Query{Coll: name}}, cs.Op{Kind: "find", Q: &cs.Query{Coll: name}},
			cs.Op{Kind: "listindexes", Coll: name})
		for _, f := range []string{"x", "y", "u"} {
			epilogue = append(epilogue, cs.Op{Kind: "find", Q: &cs.Query{Coll: name, SortSet: true, Sort: []cs.SortOpt{{Field: f, Dir: 1}}}})
		}
	}
	for i := range epilogue {
		call := time.Since(start).Nanoseconds()
		out := run.Exec(s.H.DB, &epilogue[i])
		ret := time.Since(start).Nanoseconds()
		h.Ops = append(h.Ops, c07Op{Client: len(p.Clients), Op: epilogue[i], Call: call, Return: ret, Out: out})
	}
	return h, nil
}

func overlapWrite(h *c07History) bool {
	isWrite := func(k string) bool {
		switch k {
		case "find", "count", "findbyid":
			return false
		}
		return true
	}
	collOf := func(o *cs.Op) string {
		if o.Q != nil {
			return o.Q.Coll
		}
		return o.Coll
	}
	for i := range h.Ops {
		for j := i + 1; j < len(h.Ops); j++ {
			a, b := &h.Ops[i], &h.Ops[j]
			if a.Client == b.Client || collOf(&a.Op) != collOf(&b.Op) {
				continue
			}
			if a.Call <= b.Return && b.Call <= a.Return && (isWrite(a.Op.Kind) || isWrite(b.Op.Kind)) {
				return true
			}
		}
	}
	return false
}

// sharedQueryPhase: goroutines derive queries from one shared *query.Query concurrently.
func sharedQueryPhase(backend string, setup []cs.Op, q *cs.Query, clients int) *sm.Fail {
	s, err := sm.NewSession("C07", "c07", backend)
	if err != nil {
		return &sm.Fail{Property: "C07", Clause: "harness", Detail: err.Error()}
	}
	defer s.Close()
	for _, op := range setup {
		if f := s.Do(op); f != nil {
			return f
		}
	}
	base := run.BuildQuery(q)
	before := run.QueryDigest(base)
	type res struct {
		limit int
		docs  []cs.Doc
		err   string
	}
	results := make([]res, clients)
	var wg sync.WaitGroup
	for g := 0; g < clients; g++ {
		wg.Add(1)
		go func(g int) {
			defer wg.Done()
			out := run.Guard(func(o *cs.Outcome) {
				derived := base.Limit(g + 1).Skip(g % 2)
				if c := base.Criteria(); c != nil {
					_ = c.Not()
				}
				docs, err := s.H.DB.FindAll(derived)
				o.Err = run.ErrName(err)
				o.Docs = run.FromDocuments(docs)
				_ = document.NewDocument
			})
			results[g] = res{limit: g + 1, docs: out.Docs, err: out.Err}
		}(g)
	}
	wg.Wait()
	if d := run.QueryDigest(base); d != before {
		return &sm.Fail{Property: "C07", Clause: "shared-query", Detail: "the shared query object changed while goroutines derived from it: " + before + " -> " + d}
	}
	c := s.M.Colls[q.Coll]
	for g, r := range results {
		if strings.HasPrefix(r.err, "panic") || r.err == "hang" {
			return &sm.Fail{Property: "C20", Clause: "no-panic-no-hang", Detail: "FindAll on a derived query: " + r.err}
		}
		if c == nil {
			continue
		}
		dq := *q
		lim, sk := g+1, g%2
		dq.Limit, dq.Skip = &lim, &sk
		if r.err != "" {
			return &sm.Fail{Property: "C07", Clause: "shared-query", Detail: "FindAll on a derived query failed: " + r.err}
		}
		if msg := model.CheckResult(&dq, c.Docs, r.docs); msg != "" {
			return &sm.Fail{Property: "C07", Clause: "shared-query", Detail: fmt.Sprintf("goroutine %d derived Limit(%d).Skip(%d) from the shared query and got a wrong result: %s", g, lim, sk, msg)}
		}
	}
	return nil
}

func init() {
	replayers["c07"] = func(raw json.RawMessage) *sm.Fail {
		var h c07History
		if err := json.Unmarshal(raw, &h); err != nil {
			return &sm.Fail{Property: "C07", Clause: "replay", Detail: err.Error()}
		}
		_, f := checkHistory(&h)
		return f
	}
	replayers["c07shared"] = func(raw json.RawMessage) *sm.Fail {
		var c struct {
			Backend string    `json:"backend"`
			Setup   []cs.Op   `json:"setup"`
			Query   *cs.Query `json:"query"`
		}
		if err := json.Unmarshal(raw, &c); err != nil {
			return &sm.Fail{Property: "C07", Clause: "replay", Detail: err.Error()}
		}
		return sharedQueryPhase(c.Backend, c.Setup, c.Query, 4)
	}
	registerSM("C07", "c07setup", func(b string) (*sm.Session, error) { return sm.NewSession("C07", "c07setup", b) })
}

func likeLeaf(rt *rapid.T, e *gen.CritEnv) *cs.Crit {
	for i := 0; i < 20; i++ {
		if c := e.Leaf(rt); c.Op == "like" {
			return c
		}
	}
	return &cs.Crit{Op: "like", Field: "w", Pattern: "a.*"}
}

// genProgram07 draws a concurrent program. kinds restricts the operation kinds of the
// clients (nil = the C07 mix).
func genProgram07(rt *rapid.T, kinds []string) (*c07Program, func() *cs.Crit, int) {
	if kinds == nil {
		kinds = []string{"insert", "insert", "updatebyid", "update", "updatefunc", "delete", "deletebyid", "createindex", "dropindex", "find", "find", "count", "findbyid", "catalog"}
	}
	backend := rapid.SampledFrom(raceBackends).Draw(rt, "backend")
	if backend == run.BadgerMem && rapid.IntRange(0, 2).Draw(rt, "with-big-batch") == 0 {
		// only where the batch exceeds the transaction budget and must be refused as a whole
		kinds = append(append([]string{}, kinds...), "biginsert")
	}
	vcfg := gen.ValCfg{MaxDepth: 0, NoTime: true}
	dcfg := gen.DocCfg{Val: vcfg, PAbsent: 4, Fields: []string{"x", "y", "u"}}
	p := &c07Program{Backend: backend}
	colls := []string{"A"}
	p.Setup = append(p.Setup, cs.Op{Kind: "createcoll", Coll: "A"})
	if rapid.Bool().Draw(rt, "two-colls") {
		colls = append(colls, "B")
		p.Setup = append(p.Setup, cs.Op{Kind: "createcoll", Coll: "B"})
	}
	nseed := rapid.IntRange(3, 8).Draw(rt, "nseed")
	for _, c := range colls {
		docs := make([]cs.Doc, nseed)
		for i := range docs {
			d := gen.Fields(dcfg, int64(i)).Draw(rt, "seed-doc")
			d["_id"] = gen.Id(i)
			d["w"] = rapid.SampledFrom([]string{"a", "ab", "abc", "b", "ca"}).Draw(rt, "w") // always a string: what Like leaves look at
			docs[i] = d
		}
		p.Setup = append(p.Setup, cs.Op{Kind: "insert", Coll: c, Docs: docs})
		if rapid.Bool().Draw(rt, "seed-index") {
			p.Setup = append(p.Setup, cs.Op{Kind: "createindex", Coll: c, Field: rapid.SampledFrom([]string{"x", "y", "u"}).Draw(rt, "seed-ixf")})
		}
	}
	env := gen.CritEnv{Val: vcfg, Fields: []string{"x", "y", "u"}, MaxDepth: 2, NoFunc: true, NoFieldRef: true, OnlyCmp: true}
	likeEnv := gen.CritEnv{Val: vcfg, Fields: []string{"w"}, NoFunc: true, NoFieldRef: true}
	crit := func() *cs.Crit {
		if rapid.IntRange(0, 3).Draw(rt, "nocrit") == 0 {
			return nil
		}
		if rapid.IntRange(0, 3).Draw(rt, "likecrit") == 0 {
			// regular-expression leaves evaluated by several goroutines at once
			return &cs.Crit{Op: "or", Sub: []*cs.Crit{likeLeaf(rt, &likeEnv), env.Crit(rt, 1)}}
		}
		return env.Crit(rt, rapid.IntRange(1, 2).Draw(rt, "critdepth"))
	}
	nclients := rapid.IntRange(2, 8).Draw(rt, "clients")
	nextId := 100
	for ci := 0; ci < nclients; ci++ {
		nops := rapid.IntRange(2, 6).Draw(rt, "nops")
		var ops []cs.Op
		for j := 0; j < nops; j++ {
			coll := rapid.SampledFrom(colls).Draw(rt, "coll")
			switch rapid.SampledFrom(kinds).Draw(rt, "kind") {
			case "biginsert":
				// 2500 padded documents: more than one badger transaction of the in-memory store holds
				// (it must be refused as a whole); a long single transaction on bbolt
				ops = append(ops, cs.Op{Kind: "geninsert", Coll: coll, Gen: &cs.GenSpec{First: 700000 + 3000*(ci*8+j), N: 2500, Pad: 700, Mul: 1, Mod: 9}})
			case "catalog":
				// catalog operations racing on a small set of names
				name := rapid.SampledFrom([]string{"A", "B", "C", "D"}).Draw(rt, "cname")
				switch rapid.SampledFrom([]string{"createcoll", "createcoll", "dropcoll", "listcolls", "hascoll"}).Draw(rt, "ckind") {
				case "createcoll":
					ops = append(ops, cs.Op{Kind: "createcoll", Coll: name})
				case "dropcoll":
					ops = append(ops, cs.Op{Kind: "dropcoll", Coll: rapid.SampledFrom([]string{"C", "D", "B"}).Draw(rt, "dname")})
				case "listcolls":
					ops = append(ops, cs.Op{Kind: "listcolls"})
				case "hascoll":
					ops = append(ops, cs.Op{Kind: "hascoll", Coll: name})
				}
			case "insert":
				nd := rapid.IntRange(1, 3).Draw(rt, "ndocs")
				docs := make([]cs.Doc, nd)
				for i := range docs {
					d := gen.Fields(dcfg, int64(nextId)).Draw(rt, "doc")
					d["_id"] = gen.Id(nextId)
					d["w"] = rapid.SampledFrom([]string{"a", "ab", "abc", "b", "ca"}).Draw(rt, "w")
					if rapid.IntRange(0, 7).Draw(rt, "dup-id") == 0 {
						d["_id"] = gen.Id(rapid.IntRange(0, nseed-1).Draw(rt, "dupk"))
					}
					nextId++
					docs[i] = d
				}
				ops = append(ops, cs.Op{Kind: "insert", Coll: coll, Docs: docs})
			case "updatebyid":
				ops = append(ops, cs.Op{Kind: "updatebyid", Coll: coll, Id: &cs.IdRef{Lit: gen.Id(rapid.IntRange(0, nseed).Draw(rt, "idk"))},
					Upd: &cs.Updater{Kind: rapid.SampledFrom([]string{"set", "inplace", "incr"}).Draw(rt, "updk"), Field: rapid.SampledFrom([]string{"x", "y", "u"}).Draw(rt, "updf"),
						Value: cs.V{X: gen.Scalar(vcfg).Draw(rt, "updv")}, N: 1}})
			case "update":
				ops = append(ops, cs.Op{Kind: "update", Q: &cs.Query{Coll: coll, Crit: crit()}, UpdMap: map[string]cs.V{rapid.SampledFrom([]string{"x", "y"}).Draw(rt, "updf"): {X: gen.Scalar(vcfg).Draw(rt, "updv")}}})
			case "updatefunc":
				ops = append(ops, cs.Op{Kind: "updatefunc", Q: &cs.Query{Coll: coll, Crit: crit()}, Upd: &cs.Updater{Kind: rapid.SampledFrom([]string{"incr", "set", "delete"}).Draw(rt, "updk"), Field: "u", N: 10, Value: cs.V{X: int64(7)}}})
			case "delete":
				ops = append(ops, cs.Op{Kind: "delete", Q: &cs.Query{Coll: coll, Crit: crit()}})
			case "deletebyid":
				ops = append(ops, cs.Op{Kind: "deletebyid", Coll: coll, Id: &cs.IdRef{Lit: gen.Id(rapid.IntRange(0, nseed).Draw(rt, "idk"))}})
			case "createindex", "dropindex":
				k := rapid.SampledFrom([]string{"createindex", "dropindex"}).Draw(rt, "ixkind")
				ops = append(ops, cs.Op{Kind: k, Coll: coll, Field: rapid.SampledFrom([]string{"x", "y", "u"}).Draw(rt, "ixf")})
			case "find":
				q := &cs.Query{Coll: coll, Crit: crit()}
				if rapid.IntRange(0, 3).Draw(rt, "sorted") == 0 {
					q.SortSet = true
					q.Sort = []cs.SortOpt{{Field: rapid.SampledFrom([]string{"x", "u", "_id"}).Draw(rt, "sortf"), Dir: rapid.SampledFrom([]int{1, -1}).Draw(rt, "dir")}}
				}
				ops = append(ops, cs.Op{Kind: "find", Q: q})
			case "count":
				ops = append(ops, cs.Op{Kind: "count", Q: &cs.Query{Coll: coll, Crit: crit()}})
			case "findbyid":
				ops = append(ops, cs.Op{Kind: "findbyid", Coll: coll, Id: &cs.IdRef{Lit: gen.Id(rapid.IntRange(0, nseed).Draw(rt, "idk"))}})
			}
		}
		p.Clients = append(p.Clients, ops)
	}
	p.Bits = rapid.SliceOfN(rapid.Byte(), 16, 64).Draw(rt, "schedule-bits")
	return p, crit, nclients
}

// genIndexFlipProgram: readers whose plan goes through the index on u (sort on u, range
// criteria on u) while other clients drop and re-create exactly that index and a writer
// inserts: the shape in which a plan built from one catalog snapshot meets data of another.
func genIndexFlipProgram(rt *rapid.T) *c07Program {
	p := &c07Program{Backend: rapid.SampledFrom(raceBackends).Draw(rt, "backend")}
	n := rapid.IntRange(3, 8).Draw(rt, "nseed")
	docs := make([]cs.Doc, n)
	for i := range docs {
		docs[i] = cs.Doc{"_id": gen.Id(i), "u": int64(i), "x": int64(i % 3)}
	}
	p.Setup = []cs.Op{{Kind: "createcoll", Coll: "A"}, {Kind: "insert", Coll: "A", Docs: docs}, {Kind: "createindex", Coll: "A", Field: "u"}}
	lit := func(v int) *cs.Operand { o := cs.Lit(int64(v)); return &o }
	readers := rapid.IntRange(1, 4).Draw(rt, "readers")
	for r := 0; r < readers; r++ {
		var ops []cs.Op
		for j := rapid.IntRange(2, 6).Draw(rt, "nreads"); j > 0; j-- {
			q := &cs.Query{Coll: "A"}
			switch rapid.IntRange(0, 2).Draw(rt, "readshape") {
			case 0:
				q.SortSet, q.Sort = true, []cs.SortOpt{{Field: "u", Dir: rapid.SampledFrom([]int{1, -1}).Draw(rt, "dir")}}
			case 1:
				q.Crit = &cs.Crit{Op: "gte", Field: "u", Arg: lit(rapid.IntRange(0, n).Draw(rt, "bound"))}
			default:
				q.Crit = &cs.Crit{Op: "lt", Field: "u", Arg: lit(rapid.IntRange(0, n+2).Draw(rt, "bound"))}
				q.SortSet, q.Sort = true, []cs.SortOpt{{Field: "u", Dir: 1}}
			}
			kind := rapid.SampledFrom([]string{"find", "find", "count"}).Draw(rt, "readkind")
			ops = append(ops, cs.Op{Kind: kind, Q: q})
		}
		p.Clients = append(p.Clients, ops)
	}
	var flips []cs.Op
	for j := rapid.IntRange(2, 6).Draw(rt, "nflips"); j > 0; j-- {
		flips = append(flips, cs.Op{Kind: "dropindex", Coll: "A", Field: "u"}, cs.Op{Kind: "createindex", Coll: "A", Field: "u"})
	}
	p.Clients = append(p.Clients, flips)
	if rapid.Bool().Draw(rt, "with-writer") {
		var w []cs.Op
		for j := 0; j < 3; j++ {
			w = append(w, cs.Op{Kind: "insert", Coll: "A", Docs: []cs.Doc{{"_id": gen.Id(50 + j), "u": int64(50 + j)}}})
		}
		p.Clients = append(p.Clients, w)
	}
	p.Bits = rapid.SliceOfN(rapid.Byte(), 16, 64).Draw(rt, "schedule-bits")
	return p
}

// runConcurrent executes and checks a concurrent program for the property `owner`.
func runConcurrent(rt *rapid.T, owner string, p *c07Program) (*c07History, string) {
	h, f := runProgram07(p)
	if f != nil {
		prog := &sm.Program{Property: owner, Profile: "c07setup", Backend: p.Backend, Ops: p.Setup, Fail: f}
		violate(rt, owner, "c07setup", prog, f)
	}
	verdict, f := checkHistory(h)
	if f != nil {
		if f.Property == "C07" {
			f.Property = owner
		}
		violate(rt, owner, "c07", h, f)
	}
	return h, verdict
}

// concurrentCase runs one generated concurrent program for the property `owner` and reports
// a non-linearizable history as a violation of that property.
func concurrentCase(rt *rapid.T, owner string, kinds []string) (*c07History, string) {
	p, _, _ := genProgram07(rt, kinds)
	h, f := runProgram07(p)
	if f != nil {
		prog := &sm.Program{Property: owner, Profile: "c07setup", Backend: p.Backend, Ops: p.Setup, Fail: f}
		violate(rt, owner, "c07setup", prog, f)
	}
	verdict, f := checkHistory(h)
	if f != nil {
		if f.Property == "C07" {
			f.Property = owner
		}
		violate(rt, owner, "c07", h, f)
	}
	return h, verdict
}

func TestC07(t *testing.T) {
	t.Run("histories", testC07Histories)
	if os.Getenv("VERIF_RACE") == "" {
		t.Run("snapshot-readers", testC07SnapshotReaders)
	}
	t.Run("fresh-ids", testC07FreshIds)
}

// c07Ids: several goroutines insert batches of documents without _id at the same moment (also
// through InsertOne and NewObjectId directly). Every insert must succeed, every assigned id must
// be a valid UUID, no id may be handed out twice, and afterwards the collection holds exactly
// the inserted documents.
type c07Ids struct {
	Backend string `json:"backend"`
	Workers int    `json:"workers"`
	Batches int    `json:"batches"`
	Size    int    `json:"size"`
}

func runC07Ids(c *c07Ids) *sm.Fail {
	bad := func(f string, a ...interface{}) *sm.Fail {
		return &sm.Fail{Property: "C07", Clause: "fresh-ids", Detail: fmt.Sprintf("[%s, %d goroutines] ", c.Backend, c.Workers) + fmt.Sprintf(f, a...)}
	}
	s, err := sm.NewSession("C07", "c07ids", c.Backend)
	if err != nil {
		return &sm.Fail{Property: "C07", Clause: "harness", Detail: err.Error()}
	}
	defer s.Close()
	if f := s.Do(cs.Op{Kind: "createcoll", Coll: "A"}); f != nil {
		return f
	}
	var mu sync.Mutex
	ids := map[string]int{}
	acked := 0
	var first *sm.Fail
	fail := func(f *sm.Fail) {
		mu.Lock()
		if first == nil {
			first = f
		}
		mu.Unlock()
	}
	var wg sync.WaitGroup
	gate := make(chan struct{})
	for w := 0; w < c.Workers; w++ {
		wg.Add(1)
		go func(w int) {
			defer wg.Done()
			<-gate
			for b := 0; b < c.Batches; b++ {
				docs := make([]cs.Doc, c.Size)
				for i := range docs {
					docs[i] = cs.Doc{"w": int64(w), "b": int64(b), "i": int64(i)}
				}
				kind := "insert"
				if c.Size == 1 && b%2 == 1 {
					kind = "insertone"
				}
				var out *cs.Outcome
				for try := 0; try < 20; try++ {
					out = run.Exec(s.H.DB, &cs.Op{Kind: kind, Coll: "A", Docs: docs})
					if !isConflict(out.Err) {
						break
					}
				}
				if strings.HasPrefix(out.Err, "panic") || out.Err == "hang" {
					fail(&sm.Fail{Property: "C20", Clause: "no-panic-no-hang", Detail: "concurrent insert of documents without _id: " + out.Err})
					return
				}
				if isConflict(out.Err) {
					continue // rejected by the store (write conflict, also after retries): legal, no effect
				}
				if out.Err != "" {
					fail(bad("an insert of %d documents without _id failed: %s", c.Size, out.Err))
					return
				}
				mu.Lock()
				acked += c.Size
				for _, id := range out.Ids {
					if !model.ValidId(id) {
						mu.Unlock()
						fail(bad("the assigned _id %q is not a valid UUID", id))
						return
					}
					ids[id]++
				}
				mu.Unlock()
			}
		}(w)
	}
	close(gate)
	wg.Wait()
	if first != nil {
		return first
	}
	want := acked
	for id, k := range ids {
		if k > 1 {
			return bad("the _id %q was assigned %d times", id, k)
		}
	}
	if len(ids) != want {
		return bad("%d distinct ids were assigned to %d documents", len(ids), want)
	}
	all := run.Exec(s.H.DB, &cs.Op{Kind: "find", Q: &cs.Query{Coll: "A"}})
	cnt := run.Exec(s.H.DB, &cs.Op{Kind: "count", Q: &cs.Query{Coll: "A"}})
	if all.Err != "" || cnt.Err != "" || len(all.Docs) != want || cnt.N != want {
		return bad("after %d acknowledged documents: FindAll returns %d (%s), Count %d (%s)", want, len(all.Docs), all.Err, cnt.N, cnt.Err)
	}
	for _, d := range all.Docs {
		if id, _ := d["_id"].(string); ids[id] != 1 {
			return bad("the stored document %s carries an _id that no insert reported", cs.Show(d))
		}
	}
	return nil
}

func init() {
	replayers["c07ids"] = func(raw json.RawMessage) *sm.Fail {
		var c c07Ids
		if err := json.Unmarshal(raw, &c); err != nil {
			return &sm.Fail{Property: "C07", Clause: "replay", Detail: err.Error()}
		}
		return runC07Ids(&c)
	}
}

func testC07FreshIds(t *testing.T) {
	col := collector("C07", ruleC07)
	check(t, "C07", cases(40, 1000), 0, func(rt *rapid.T) {
		c := &c07Ids{Backend: rapid.SampledFrom(raceBackends).Draw(rt, "backend"), Workers: rapid.IntRange(2, 8).Draw(rt, "workers"),
			Batches: rapid.IntRange(2, 12).Draw(rt, "batches"), Size: rapid.SampledFrom([]int{1, 1, 3, 20}).Draw(rt, "size")}
		if f := runC07Ids(c); f != nil {
			violate(rt, "C07", "c07ids", c, f)
		}
		col.Case(true, hashOf(c), func() interface{} { return c }, "fresh-ids", "backend:"+c.Backend)
	})
}

// c07Snap: one writer rewrites a field of every document of a large collection with bulk
// Updates (generation 1, 2, ...) while readers export the collection, scan it and count it.
// Every operation is atomic, so whatever a single ExportCollection / FindAll call returns
// shows one generation for all documents, every document exactly once.
type c07Snap struct {
	Backend string `json:"backend"`
	N       int    `json:"n"`
	Rounds  int    `json:"rounds"`
	Indexed bool   `json:"indexed"`
	Bits    []byte `json:"bits"`
}

func runC07Snap(c *c07Snap) *sm.Fail {
	bad := func(f string, a ...interface{}) *sm.Fail {
		return &sm.Fail{Property: "C07", Clause: "snapshot-read", Detail: fmt.Sprintf("[%s, %d documents] ", c.Backend, c.N) + fmt.Sprintf(f, a...)}
	}
	s, err := sm.NewSession("C07", "c07snap", c.Backend)
	if err != nil {
		return &sm.Fail{Property: "C07", Clause: "harness", Detail: err.Error()}
	}
	defer s.Close()
	setup := []cs.Op{{Kind: "createcoll", Coll: "E"}, {Kind: "geninsert", Coll: "E", Gen: &cs.GenSpec{First: 0, N: c.N, Mul: 1, Mod: 7}}}
	if c.Indexed {
		setup = append(setup, cs.Op{Kind: "createindex", Coll: "E", Field: "y"})
	}
	for _, op := range setup {
		if f := s.Do(op); f != nil {
			return f
		}
	}
	var bitIdx int64
	s.H.Deco.Yield = func() {
		if len(c.Bits) == 0 {
			return
		}
		i := atomic.AddInt64(&bitIdx, 1)
		if c.Bits[int(i)%len(c.Bits)]&7 == 1 {
			runtime.Gosched()
		}
	}
	defer func() { s.H.Deco.Yield = nil }()
	var wg sync.WaitGroup
	done := make(chan struct{})
	var werr atomic.Value
	wg.Add(1)
	go func() {
		defer wg.Done()
		defer close(done)
		for g := 1; g <= c.Rounds; g++ {
			out := run.Exec(s.H.DB, &cs.Op{Kind: "update", Q: &cs.Query{Coll: "E"}, UpdMap: map[string]cs.V{"gen": {X: int64(g)}}})
			if out.Err != "" && !isConflict(out.Err) {
				werr.Store(fmt.Sprintf("bulk Update to generation %d failed: %s", g, out.Err))
				return
			}
		}
	}()
	oneGen := func(what string, docs []map[string]interface{}) *sm.Fail {
		if len(docs) != c.N {
			return bad("%s returned %d documents while only bulk Updates were running", what, len(docs))
		}
		gens := map[string]int{}
		seen := map[string]bool{}
		for _, d := range docs {
			id, _ := d["_id"].(string)
			if seen[id] {
				return bad("%s returned document %q twice", what, id)
			}
			seen[id] = true
			gens[fmt.Sprint(d["gen"])]++
		}
		if len(gens) > 1 {
			return bad("%s shows a partially applied bulk Update: documents per generation %v", what, gens)
		}
		return nil
	}
	fails := make([]*sm.Fail, 3)
	for r := 0; r < 3; r++ {
		wg.Add(1)
		go func(r int) {
			defer wg.Done()
			path := fmt.Sprintf("%s/export-%d.json", s.FilesDir(), r)
			for i := 0; i < 40; i++ {
				select {
				case <-done:
					if i > 2 {
						return
					}
				default:
				}
				if r == 0 {
					out := run.Exec(s.H.DB, &cs.Op{Kind: "export", Coll: "E", Path: path})
					if out.Err != "" {
						fails[r] = bad("ExportCollection failed: %s", out.Err)
						return
					}
					b, err := os.ReadFile(path)
					var docs []map[string]interface{}
					if err == nil {
						err = json.Unmarshal(b, &docs)
					}
					if err != nil {
						fails[r] = bad("the exported file is unreadable: %v", err)
						return
					}
					if fails[r] = oneGen("ExportCollection", docs); fails[r] != nil {
						return
					}
					continue
				}
				q := &cs.Query{Coll: "E"}
				if r == 2 && c.Indexed {
					a := cs.Lit(int64(0))
					q.Crit = &cs.Crit{Op: "gte", Field: "y", Arg: &a} // served by the index
				}
				out := run.Exec(s.H.DB, &cs.Op{Kind: "find", Q: q})
				if out.Err != "" {
					fails[r] = bad("FindAll failed: %s", out.Err)
					return
				}
				docs := make([]map[string]interface{}, len(out.Docs))
				for i, d := range out.Docs {
					docs[i] = d
				}
				if fails[r] = oneGen("FindAll", docs); fails[r] != nil {
					return
				}
			}
		}(r)
	}
	wg.Wait()
	if msg, _ := werr.Load().(string); msg != "" {
		return bad("%s", msg)
	}
	for _, f := range fails {
		if f != nil {
			return f
		}
	}
	return nil
}

func init() {
	replayers["c07snap"] = func(raw json.RawMessage) *sm.Fail {
		var c c07Snap
		if err := json.Unmarshal(raw, &c); err != nil {
			return &sm.Fail{Property: "C07", Clause: "replay", Detail: err.Error()}
		}
		return runC07Snap(&c)
	}
	registerSM("C07", "c07snapsetup", func(b string) (*sm.Session, error) { return sm.NewSession("C07", "c07snap", b) })
}

func testC07SnapshotReaders(t *testing.T) {
	col := collector("C07", ruleC07)
	check(t, "C07", cases(24, 600), 0, func(rt *rapid.T) {
		c := &c07Snap{Backend: rapid.SampledFrom(raceBackends).Draw(rt, "backend"), N: rapid.SampledFrom([]int{300, 600, 257, 1100}).Draw(rt, "n"),
			Rounds: rapid.IntRange(3, 8).Draw(rt, "rounds"), Indexed: rapid.Bool().Draw(rt, "indexed"), Bits: rapid.SliceOfN(rapid.Byte(), 8, 32).Draw(rt, "bits")}
		if f := runC07Snap(c); f != nil {
			violate(rt, "C07", "c07snap", c, f)
		}
		col.Case(true, hashOf(c), func() interface{} { return c }, "snapshot-readers", "backend:"+c.Backend)
	})
}

func testC07Histories(t *testing.T) {
	col := collector("C07", ruleC07)
	race := os.Getenv("VERIF_RACE") != ""
	n := cases(160, 6000)
	if race {
		n = ev.Scale(150, 1500)
	}
	check(t, "C07", n, 0, func(rt *rapid.T) {
		p, crit, nclients := genProgram07(rt, nil)
		if rapid.IntRange(0, 5).Draw(rt, "index-flip") == 0 {
			fp := genIndexFlipProgram(rt)
			p, nclients = fp, len(fp.Clients)
		}
		backend := p.Backend

		h, f := runProgram07(p)
		if f != nil {
			prog := &sm.Program{Property: "C07", Profile: "c07setup", Backend: backend, Ops: p.Setup, Fail: f}
			violate(rt, "C07", "c07setup", prog, f)
		}
		verdict, f := checkHistory(h)
		if f != nil {
			violate(rt, "C07", "c07", h, f)
		}
		// shared query/criteria phase
		sq := &cs.Query{Coll: "A", Crit: crit()}
		if rapid.Bool().Draw(rt, "shared-in") {
			// an In / Contains leaf whose operands are plain Go ints: the operand list belongs to the
			// shared criteria object and must be left alone by the goroutines' queries
			args := make([]cs.Operand, rapid.IntRange(1, 3).Draw(rt, "shared-in-n"))
			for i := range args {
				args[i] = cs.Operand{Kind: "lit", Lit: cs.V{X: int64(rapid.IntRange(-3, 9).Draw(rt, "shared-in-v"))},
					GoKind: rapid.SampledFrom([]string{"int", "int8", "int32", "int16"}).Draw(rt, "shared-in-kind")}
			}
			leaf := &cs.Crit{Op: rapid.SampledFrom([]string{"in", "in", "contains"}).Draw(rt, "shared-in-op"), Field: "x", Args: args}
			if sq.Crit == nil {
				sq.Crit = leaf
			} else {
				sq.Crit = &cs.Crit{Op: "and", Sub: []*cs.Crit{sq.Crit, leaf}}
			}
		}
		if rapid.Bool().Draw(rt, "shared-sorted") {
			sq.SortSet = true
			sq.Sort = []cs.SortOpt{{Field: "u", Dir: 1}}
		}
		if f := sharedQueryPhase(backend, p.Setup, sq, rapid.IntRange(2, 6).Draw(rt, "shared-clients")); f != nil {
			violate(rt, "C07", "c07shared", map[string]interface{}{"backend": backend, "setup": p.Setup, "query": sq}, f)
		}
		cl := []string{"backend:" + backend, fmt.Sprintf("clients:%d", nclients), "verdict:" + verdict}
		if race {
			cl = append(cl, "race-build")
		}
		nconf := 0
		for _, o := range h.Ops {
			if isConflict(o.Out.Err) {
				nconf++
			}
		}
		if nconf > 0 {
			cl = append(cl, "store-conflict-seen")
		}
		if verdict == "unknown" {
			col.Add("inconclusive_histories", 1)
		}
		col.Case(overlapWrite(h), hashOf(p), func() interface{} {
			return map[string]interface{}{"backend": backend, "clients": nclients, "operations": len(h.Ops), "setup_ops": len(p.Setup), "conflicts": nconf, "verdict": verdict,
				"first_client": p.Clients[0]}
		}, cl...)
	})
}
