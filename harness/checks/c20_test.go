package checks

import (
	"encoding/json"
	"fmt"
	"os"
	"strings"
	"sync"
	"testing"

	"pgregory.net/rapid"

	"verif/harness/cs"
	"verif/harness/ev"
	"verif/harness/gen"
	"verif/harness/run"
	"verif/harness/sm"
)

const ruleC20 = "model-based state machine with a hostile action mix: criteria rich in negated In/Like/Exists/Contains/MatchFunc, field-reference and un-normalisable operands on collections with 0-2 indexes, every API on missing collections/indexes/documents, empty batches and empty names, malformed ids, Close followed by every API (including bursts of 480 calls), double Close, reopen; on bbolt and badger. Every clover call of every engine runs under recover() and a per-call deadline; a panic or a hang is a violation. An evaluation is one step; non-trivial when the call belongs to a hostile class (negated non-comparison leaf, field-reference or bad operand, missing target, after Close, malformed id, empty batch); distinct = distinct (operation, model state). A second part runs concurrent programs (all operation kinds incl. regular-expression criteria) and 2-8 simultaneous Close calls on one handle: no call may panic or hang."

func c20Profile() *sm.Profile {
	return &sm.Profile{
		Name:        "c20",
		FaultRate:   12,
		Colls:       []string{"A", "B", "missing", ""},
		IndexFields: []string{"x", "y", "n.a", "_id", "s"},
		Doc:         gen.DocCfg{Val: gen.ValCfg{MaxDepth: 2, NonUTF8: true, Inf: true}, PAbsent: 3},
		IdPool:      12,
		MaxDocs:     8,
		BadIds:      true,
		BadDocs:     true,
		GenIds:      true,
		IdRewrite:   true,
		Crit:        gen.CritEnv{Val: gen.ValCfg{MaxDepth: 2, NonUTF8: true, Inf: true}, GoKinds: true, MaxDepth: 4, Bad: true},
		Weights: []sm.W{{Kind: "createcoll", Weight: 4}, {Kind: "dropcoll", Weight: 2}, {Kind: "hascoll", Weight: 2}, {Kind: "listcolls", Weight: 2},
			{Kind: "insert", Weight: 10}, {Kind: "insertone", Weight: 2}, {Kind: "save", Weight: 3}, {Kind: "replace", Weight: 3},
			{Kind: "updatebyid", Weight: 4}, {Kind: "update", Weight: 5}, {Kind: "updatefunc", Weight: 5}, {Kind: "delete", Weight: 4},
			{Kind: "deletebyid", Weight: 3}, {Kind: "createindex", Weight: 8}, {Kind: "dropindex", Weight: 3}, {Kind: "hasindex", Weight: 3},
			{Kind: "listindexes", Weight: 3}, {Kind: "find", Weight: 14}, {Kind: "count", Weight: 5}, {Kind: "exists", Weight: 4},
			{Kind: "findfirst", Weight: 4}, {Kind: "foreach", Weight: 4}, {Kind: "iterate", Weight: 4}, {Kind: "findbyid", Weight: 3}, {Kind: "createbyquery", Weight: 3},
			{Kind: "close", Weight: 2}, {Kind: "reopen", Weight: 1}, {Kind: "storm", Weight: 1}},
	}
}

func c20Session(backend string) (*sm.Session, error) {
	s, err := sm.NewSession("C20", "c20", backend)
	if err != nil {
		return nil, err
	}
	s.M.AllowIdRewrite = true
	return s, nil
}

func init() {
	registerSM("C20", "c20", c20Session)
	replayers["c20close"] = func(raw json.RawMessage) *sm.Fail {
		var c struct {
			Backend string `json:"backend"`
			Closers int    `json:"closers"`
		}
		if err := json.Unmarshal(raw, &c); err != nil {
			return &sm.Fail{Property: "C20", Clause: "replay", Detail: err.Error()}
		}
		for i := 0; i < 30; i++ {
			if f := concurrentClose(c.Backend, c.Closers); f != nil {
				return f
			}
		}
		return nil
	}
}

func hostileClasses(s *sm.Session, op cs.Op) []string {
	var cl []string
	if s.M.Closed && op.Kind != "close" && op.Kind != "reopen" {
		cl = append(cl, "after-close")
	}
	if op.Kind == "close" && s.Facts["closes"] > 1 {
		cl = append(cl, "double-close")
	}
	if op.Q != nil && op.Q.Crit != nil {
		var walk func(c *cs.Crit, neg bool)
		walk = func(c *cs.Crit, neg bool) {
			switch c.Op {
			case "not":
				walk(c.Sub[0], !neg)
				return
			case "and", "or":
				walk(c.Sub[0], neg)
				walk(c.Sub[1], neg)
				return
			}
			if neg || c.Op == "notexists" {
				switch c.Op {
				case "in", "like", "exists", "contains", "func", "notexists":
					cl = append(cl, "negated-"+c.Op)
				}
			}
			ops := c.Args
			if c.Arg != nil {
				ops = append(ops, *c.Arg)
			}
			for _, o := range ops {
				if o.Kind != "lit" {
					cl = append(cl, "operand-"+o.Kind)
				}
			}
		}
		walk(op.Q.Crit, false)
	}
	target := op.Coll
	if op.Q != nil && op.Kind != "createbyquery" {
		target = op.Q.Coll
	}
	switch op.Kind {
	case "listcolls", "close", "reopen", "createcoll", "hascoll", "storm":
	default:
		if s.Prev != nil && s.Prev.Colls[target] == nil {
			cl = append(cl, "missing-collection")
		}
	}
	if op.Kind == "insert" && len(op.Docs) == 0 {
		cl = append(cl, "empty-batch")
	}
	if ok, idcl := opTouchesIds(op); ok {
		cl = append(cl, idcl...)
	}
	return cl
}

// concurrentClose: several goroutines call Close on one handle at the same time, then use it.
func concurrentClose(backend string, n int) *sm.Fail {
	s, err := c20Session(backend)
	if err != nil {
		return &sm.Fail{Property: "C20", Clause: "harness", Detail: err.Error()}
	}
	defer s.Close()
	if f := s.Do(cs.Op{Kind: "createcoll", Coll: "A"}); f != nil {
		return f
	}
	outs := make([]*cs.Outcome, n)
	var wg sync.WaitGroup
	gate := make(chan struct{})
	for i := 0; i < n; i++ {
		wg.Add(1)
		go func(i int) {
			defer wg.Done()
			<-gate
			outs[i] = run.Exec(s.H.DB, &cs.Op{Kind: "close"})
		}(i)
	}
	close(gate)
	wg.Wait()
	for _, o := range outs {
		if strings.HasPrefix(o.Err, "panic") || o.Err == "hang" {
			return &sm.Fail{Property: "C20", Clause: "no-panic-no-hang", Detail: fmt.Sprintf("%d concurrent Close calls: %s", n, o.Err)}
		}
	}
	after := run.Exec(s.H.DB, &cs.Op{Kind: "find", Q: &cs.Query{Coll: "A"}})
	if strings.HasPrefix(after.Err, "panic") || after.Err == "hang" {
		return &sm.Fail{Property: "C20", Clause: "no-panic-no-hang", Detail: "FindAll after concurrent Close: " + after.Err}
	}
	s.M.Closed = true
	return nil
}

func TestC20(t *testing.T) {
	if os.Getenv("VERIF_RACE") == "" {
		// (the race-enabled shard only runs the concurrent part, with more programs)
		t.Run("histories", testC20Histories)
	}
	if os.Getenv("VERIF_RACE") == "" {
		// the document API (Set / SetAll / Get / Has / Copy / AsMap / Fields / NewDocumentOf / Unmarshal /
		// Encode) on reflection-built Go values: the C18 case, here for its panics
		t.Run("document-api", func(t *testing.T) {
			check(t, "C20", cases(6000, 150000), 0, propC18For("C20", collector("C20", ruleC20)))
		})
	}
	t.Run("concurrent", func(t *testing.T) {
		col := collector("C20", ruleC20)
		n := cases(60, 1500)
		if os.Getenv("VERIF_RACE") != "" {
			n = ev.Scale(120, 1200)
		}
		check(t, "C20", n, 0, func(rt *rapid.T) {
			// no call may panic or hang when several goroutines use the handle (regular-expression,
			// catalog, bulk and index operations at once), nor when they close it at the same time
			h, verdict := concurrentCase(rt, "C20", nil)
			backend := rapid.SampledFrom([]string{run.Bbolt, run.BadgerMem, run.BadgerMem}).Draw(rt, "close-backend")
			n := rapid.IntRange(2, 8).Draw(rt, "closers")
			if f := concurrentClose(backend, n); f != nil {
				violate(rt, "C20", "c20close", map[string]interface{}{"backend": backend, "closers": n}, f)
			}
			col.Case(true, hashOf(h.Setup, len(h.Ops), h.Ops[0].Op, backend, n), func() interface{} {
				return map[string]interface{}{"mode": "concurrent", "backend": h.Backend, "operations": len(h.Ops), "verdict": verdict, "concurrent_close": n}
			}, "concurrent", "verdict:"+verdict)
		})
	})
}

func testC20Histories(t *testing.T) {
	(&smCheck{property: "C20", kind: "c20", rule: ruleC20, quick: 2500, thorough: 80000, stepsQ: 25, stepsT: 40,
		backends: []string{run.Bbolt, run.BadgerMem},
		profile:  func(rt *rapid.T) *sm.Profile { return c20Profile() },
		session:  c20Session,
		classify: func(s *sm.Session, p *sm.Profile, op cs.Op) (bool, []string) {
			if op.Kind == "close" {
				s.Facts["closes"]++
			}
			cl := hostileClasses(s, op)
			return len(cl) > 0, cl
		}}).run(t)
}
