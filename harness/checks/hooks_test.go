package checks

import (
	"fmt"
	"sort"
	"strings"

	"verif/harness/cs"
	"verif/harness/model"
	"verif/harness/run"
	"verif/harness/sm"
)

// scan runs FindAll without criteria.
func scan(s *sm.Session, coll string) *cs.Outcome {
	return run.Exec(s.H.DB, &cs.Op{Kind: "find", Q: &cs.Query{Coll: coll}})
}

// collEquals: the collection holds exactly the model's documents (any order), has the
// model's index list and count.
func collEquals(s *sm.Session, property, clause, name string, c *model.Coll) *sm.Fail {
	all := scan(s, name)
	if all.Err != "" {
		return &sm.Fail{Property: property, Clause: clause, Detail: fmt.Sprintf("FindAll on %q failed: %s", name, all.Err)}
	}
	if msg := model.CheckResult(&cs.Query{Coll: name}, c.Docs, all.Docs); msg != "" {
		return &sm.Fail{Property: property, Clause: clause, Detail: fmt.Sprintf("contents of %q: %s", name, msg)}
	}
	li := run.Exec(s.H.DB, &cs.Op{Kind: "listindexes", Coll: name})
	if li.Err != "" {
		return &sm.Fail{Property: property, Clause: clause, Detail: fmt.Sprintf("ListIndexes on %q failed: %s", name, li.Err)}
	}
	got := append([]string{}, li.Names...)
	sort.Strings(got)
	if strings.Join(got, "\x00") != strings.Join(c.IndexNames(), "\x00") {
		return &sm.Fail{Property: property, Clause: clause, Detail: fmt.Sprintf("ListIndexes(%q) = %q, model %q", name, got, c.IndexNames())}
	}
	cnt := run.Exec(s.H.DB, &cs.Op{Kind: "count", Q: &cs.Query{Coll: name}})
	if cnt.Err != "" || cnt.N != len(c.Docs) {
		return &sm.Fail{Property: property, Clause: clause, Detail: fmt.Sprintf("Count(%q) = %d (%s), model %d", name, cnt.N, cnt.Err, len(c.Docs))}
	}
	return nil
}

// catalogHook (C13): catalog equals the model and every collection other than the
// operated one is exactly what it was.
func catalogHook(names []string) sm.Hook {
	return func(s *sm.Session, op *cs.Op, out *cs.Outcome) *sm.Fail {
		if s.M.Closed {
			return nil
		}
		lc := run.Exec(s.H.DB, &cs.Op{Kind: "listcolls"})
		if lc.Err != "" {
			return &sm.Fail{Property: "C13", Clause: "catalog", Detail: "ListCollections failed: " + lc.Err}
		}
		got := append([]string{}, lc.Names...)
		sort.Strings(got)
		if strings.Join(got, "\x00") != strings.Join(s.M.CollNames(), "\x00") || len(got) != len(s.M.CollNames()) {
			return &sm.Fail{Property: "C13", Clause: "catalog", Detail: fmt.Sprintf("ListCollections = %q, model %q  [after %s]", got, s.M.CollNames(), op.String())}
		}
		for _, n := range names {
			hc := run.Exec(s.H.DB, &cs.Op{Kind: "hascoll", Coll: n})
			if hc.Err != "" || hc.B != (s.M.Colls[n] != nil) {
				return &sm.Fail{Property: "C13", Clause: "catalog", Detail: fmt.Sprintf("HasCollection(%q) = %v (%s), model %v  [after %s]", n, hc.B, hc.Err, s.M.Colls[n] != nil, op.String())}
			}
		}
		target := op.Coll
		if op.Q != nil && op.Kind != "createbyquery" {
			target = op.Q.Coll
		}
		if op.Kind == "dropindex" || op.Kind == "dropcoll" {
			// a drop must remove exactly its own keys: nothing of a neighbour, nothing left behind
			if msg := run.Audit(s.H.Raw, s.M); msg != "" {
				return &sm.Fail{Property: "C13", Clause: "isolation", Detail: "raw keys after " + op.String() + ": " + msg}
			}
		}
		for _, n := range s.M.CollNames() {
			clause := "isolation"
			if n == target {
				clause = "own-collection"
			}
			if f := collEquals(s, "C13", clause, n, s.M.Colls[n]); f != nil {
				f.Detail += "  [after " + op.String() + "]"
				return f
			}
		}
		return nil
	}
}

// indexCatalogHook (C14): HasIndex/ListIndexes equal the model for every field of the
// alphabet, and every surviving index still answers a range query and an ordered scan
// like the model.
func indexCatalogHook(fields []string) sm.Hook {
	return func(s *sm.Session, op *cs.Op, out *cs.Outcome) *sm.Fail {
		if s.M.Closed {
			return nil
		}
		for _, n := range s.M.CollNames() {
			c := s.M.Colls[n]
			li := run.Exec(s.H.DB, &cs.Op{Kind: "listindexes", Coll: n})
			got := append([]string{}, li.Names...)
			sort.Strings(got)
			if li.Err != "" || strings.Join(got, "\x00") != strings.Join(c.IndexNames(), "\x00") {
				return &sm.Fail{Property: "C14", Clause: "index-catalog", Detail: fmt.Sprintf("ListIndexes(%q) = %q (%s), model %q  [after %s]", n, got, li.Err, c.IndexNames(), op.String())}
			}
			for _, f := range fields {
				hi := run.Exec(s.H.DB, &cs.Op{Kind: "hasindex", Coll: n, Field: f})
				if hi.Err != "" || hi.B != c.Indexes[f] {
					return &sm.Fail{Property: "C14", Clause: "index-catalog", Detail: fmt.Sprintf("HasIndex(%q,%q) = %v (%s), model %v  [after %s]", n, f, hi.B, hi.Err, c.Indexes[f], op.String())}
				}
			}
			if op.Kind != "createindex" && op.Kind != "dropindex" && op.Kind != "dropcoll" && op.Kind != "createcoll" {
				continue
			}
			for _, f := range c.IndexNames() {
				// ordered scans in both directions and a range query around a stored value
				var pivot interface{}
				for _, id := range c.Ids() {
					if v, ok := model.Lookup(c.Docs[id], f); ok && v != nil {
						pivot = v
						break
					}
				}
				qs := []*cs.Query{
					{Coll: n, SortSet: true, Sort: []cs.SortOpt{{Field: f, Dir: 1}}},
					{Coll: n, SortSet: true, Sort: []cs.SortOpt{{Field: f, Dir: -1}}},
				}
				if pivot != nil {
					a := cs.Lit(pivot)
					qs = append(qs, &cs.Query{Coll: n, Crit: &cs.Crit{Op: "gte", Field: f, Arg: &a}},
						&cs.Query{Coll: n, Crit: &cs.Crit{Op: "lte", Field: f, Arg: &a}, SortSet: true, Sort: []cs.SortOpt{{Field: f, Dir: -1}}},
						&cs.Query{Coll: n, Crit: &cs.Crit{Op: "eq", Field: f, Arg: &a}})
				}
				if pivot != nil {
					// criteria served by this index while the sort names another indexed field
					for j, g := range c.IndexNames() {
						if g == f || j > 3 {
							continue
						}
						a := cs.Lit(pivot)
						qs = append(qs, &cs.Query{Coll: n, Crit: &cs.Crit{Op: "gte", Field: f, Arg: &a}, SortSet: true, Sort: []cs.SortOpt{{Field: g, Dir: 1 - 2*(j%2)}}})
					}
				}
				for _, q := range qs {
					res := run.Exec(s.H.DB, &cs.Op{Kind: "find", Q: q})
					if res.Err != "" {
						return &sm.Fail{Property: "C14", Clause: "surviving-index", Detail: fmt.Sprintf("%s failed: %s  [after %s]", q, res.Err, op.String())}
					}
					if msg := model.CheckResult(q, c.Docs, res.Docs); msg != "" {
						return &sm.Fail{Property: "C14", Clause: "surviving-index", Detail: fmt.Sprintf("%s through index %q: %s  [after %s]", q, f, msg, op.String())}
					}
				}
			}
		}
		return nil
	}
}

// idHook (C12): FindById(c, id) only ever returns a document whose _id is id, every
// stored document is reachable under its own _id, and documents the operation does not
// address are unchanged.
func idHook(ids func(s *sm.Session) []string) sm.Hook {
	return func(s *sm.Session, op *cs.Op, out *cs.Outcome) *sm.Fail {
		if s.M.Closed {
			return nil
		}
		for _, n := range s.M.CollNames() {
			all := scan(s, n)
			if all.Err != "" {
				return &sm.Fail{Property: "C12", Clause: "id-key", Detail: "FindAll failed: " + all.Err}
			}
			cand := map[string]bool{}
			for _, id := range ids(s) {
				cand[id] = true
			}
			seen := map[string]bool{}
			for _, d := range all.Docs {
				id, _ := d["_id"].(string)
				if seen[id] {
					return &sm.Fail{Property: "C12", Clause: "id-unique", Detail: fmt.Sprintf("collection %q holds two documents with _id %q  [after %s]", n, id, op.String())}
				}
				seen[id] = true
				cand[id] = true
			}
			for id := range cand {
				r := run.Exec(s.H.DB, &cs.Op{Kind: "findbyid", Coll: n, Id: &cs.IdRef{Lit: id}})
				if r.Err != "" {
					return &sm.Fail{Property: "C12", Clause: "id-key", Detail: fmt.Sprintf("FindById(%q,%q) failed: %s", n, id, r.Err)}
				}
				if len(r.Docs) == 1 {
					if got, _ := r.Docs[0]["_id"].(string); got != id {
						return &sm.Fail{Property: "C12", Clause: "id-key", Detail: fmt.Sprintf("FindById(%q,%q) returned a document whose _id is %s  [after %s]", n, id, cs.Show(r.Docs[0]["_id"]), op.String())}
					}
				}
				if seen[id] && len(r.Docs) == 0 {
					return &sm.Fail{Property: "C12", Clause: "id-key", Detail: fmt.Sprintf("document with _id %q is returned by a scan of %q but not by FindById  [after %s]", id, n, op.String())}
				}
			}
			// untouched documents: anything the model kept must still be there unchanged when the
			// step was resynced (otherwise the model comparison already covers it)
			if s.Resynced && s.Prev != nil && s.Prev.Colls[n] != nil {
				addressed := map[string]bool{}
				if op.Id != nil {
					addressed[op.Id.Lit] = true
				}
				if op.Q != nil && op.Q.Coll == n {
					for _, d := range model.Matching(s.Prev.Colls[n].Docs, op.Q.Crit) {
						addressed[d["_id"].(string)] = true
					}
				}
				if op.Coll != n && (op.Q == nil || op.Q.Coll != n) {
					addressed = map[string]bool{}
				}
				now := map[string]cs.Doc{}
				for _, d := range all.Docs {
					id, _ := d["_id"].(string)
					now[id] = d
				}
				for id, d := range s.Prev.Colls[n].Docs {
					if addressed[id] {
						continue
					}
					if g, ok := now[id]; !ok || !cs.StrictEqual(map[string]interface{}(g), map[string]interface{}(d)) {
						return &sm.Fail{Property: "C12", Clause: "overwrite", Detail: fmt.Sprintf("document %q of %q was not addressed by the operation but changed from %s to %s  [after %s]", id, n, cs.Show(d), cs.Show(g), op.String())}
					}
				}
			}
		}
		return nil
	}
}

// ghostProbe: a collection that does not exist (per the model) must be reported missing by
// the calls that answer from the catalog entry (Count without criteria, ListIndexes), also
// right after a failed operation that would have created it.
func ghostProbe(s *sm.Session, property string, names []string) *sm.Fail {
	if s.M.Closed {
		return nil
	}
	for _, n := range names {
		if s.M.Colls[n] != nil {
			continue
		}
		one := 1
		for _, op := range []cs.Op{{Kind: "count", Q: &cs.Query{Coll: n}}, {Kind: "count", Q: &cs.Query{Coll: n, Skip: &one}}, {Kind: "listindexes", Coll: n}} {
			out := run.Exec(s.H.DB, &op)
			if out.Err != "ErrCollectionNotExist" {
				return &sm.Fail{Property: property, Clause: "ghost-collection", Detail: fmt.Sprintf("%s on the missing collection %q returned err=%q n=%d instead of ErrCollectionNotExist", op.Kind, n, out.Err, out.N)}
			}
		}
	}
	return nil
}
