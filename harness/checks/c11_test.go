package checks

import (
	"encoding/json"
	"fmt"
	"strings"
	"sync"
	"testing"
	"time"

	"github.com/ostafen/clover/v2/document"
	"pgregory.net/rapid"

	"verif/harness/cs"
	"verif/harness/ev"
	"verif/harness/gen"
	"verif/harness/model"
	"verif/harness/run"
	"verif/harness/sm"
)

const ruleC11 = "documents with 1-5 fields whose values nest to depth <= 4 and include int64/uint64 extremes, -0.0, +-MaxFloat64, denormals, empty strings/maps/slices, non-UTF-8 strings and times (1970-2200, 1678-2262, and far away: year 1, 1066, 1600, 2300, 9999) with odd zone offsets and nanoseconds inside arrays and inside objects inside arrays; written through Insert, Save, ReplaceById, UpdateById and Update on bbolt (on disk) and badger, read back with FindById and FindAll, then again after Close + Open (on-disk backend); also the pure document.Encode -> document.Decode round trip. Oracle: type-strict deep equality with the written document (int64 != uint64 != float64, floats bit-exact, times equal in instant and zone offset, nil slice = empty slice). An evaluation is one document round trip; non-trivial when the document nests >= 2 levels or contains a time, a uint64, an integer beyond 2^53 or a non-UTF-8 string; distinct = distinct documents. A second part has 2-8 goroutines read the same documents by id and by query at the same time; every read must return exactly what was written."

func c11Session(backend string) (*sm.Session, error) { return sm.NewSession("C11", "c11", backend) }

func init() {
	registerSM("C11", "c11", c11Session)
	replayers["c11readers"] = func(raw json.RawMessage) *sm.Fail {
		var c struct {
			Backend string   `json:"backend"`
			Docs    []cs.Doc `json:"docs"`
			Readers int      `json:"readers"`
		}
		if err := json.Unmarshal(raw, &c); err != nil {
			return &sm.Fail{Property: "C11", Clause: "replay", Detail: err.Error()}
		}
		for i := 0; i < 20; i++ {
			if f := concurrentReaders(c.Backend, c.Docs, c.Readers); f != nil {
				return f
			}
		}
		return nil
	}
	replayers["c11enc"] = func(raw json.RawMessage) *sm.Fail {
		var d cs.Doc
		if err := json.Unmarshal(raw, &d); err != nil {
			return &sm.Fail{Property: "C11", Clause: "replay", Detail: err.Error()}
		}
		return encodeRoundTrip(d)
	}
}

func encodeRoundTrip(d cs.Doc) *sm.Fail {
	var f *sm.Fail
	out := run.Guard(func(o *cs.Outcome) {
		doc := run.ToDocument(d)
		b, err := document.Encode(doc)
		if err != nil {
			f = &sm.Fail{Property: "C11", Clause: "encode", Detail: fmt.Sprintf("Encode(%s): %v", cs.Show(d), err)}
			return
		}
		back, err := document.Decode(b)
		if err != nil {
			f = &sm.Fail{Property: "C11", Clause: "decode", Detail: fmt.Sprintf("Decode(Encode(%s)): %v", cs.Show(d), err)}
			return
		}
		if g := run.FromDocument(back); !cs.StrictEqual(map[string]interface{}(g), map[string]interface{}(d)) {
			f = &sm.Fail{Property: "C11", Clause: "encode-decode", Detail: fmt.Sprintf("wrote %s, decoded %s", cs.Show(d), cs.Show(g))}
		}
	})
	if out.Err != "" {
		return &sm.Fail{Property: "C20", Clause: "no-panic-no-hang", Detail: "Encode/Decode: " + out.Err}
	}
	return f
}

func depthOf(v interface{}) int {
	switch x := v.(type) {
	case []interface{}:
		d := 0
		for _, e := range x {
			if k := depthOf(e); k > d {
				d = k
			}
		}
		return d + 1
	case map[string]interface{}:
		d := 0
		for _, e := range x {
			if k := depthOf(e); k > d {
				d = k
			}
		}
		return d + 1
	case cs.Doc:
		return depthOf(map[string]interface{}(x))
	}
	return 0
}

func interesting(v interface{}, cl map[string]bool) {
	switch x := v.(type) {
	case time.Time:
		cl["time"] = true
		if _, off := x.Zone(); off%60 != 0 {
			cl["time-odd-zone"] = true
		}
		if x.Year() < 1678 || x.Year() > 2262 {
			cl["time-outside-unixnano-range"] = true
		}
	case uint64:
		cl["uint64"] = true
		if x > 1<<53 {
			cl["int-beyond-2^53"] = true
		}
	case int64:
		if x > 1<<53 || x < -(1<<53) {
			cl["int-beyond-2^53"] = true
		}
	case string:
		if !json.Valid([]byte(fmt.Sprintf("%q", x))) || !validUTF8(x) {
			cl["non-utf8"] = true
		}
		if x == "" {
			cl["empty-string"] = true
		}
	case []interface{}:
		if len(x) == 0 {
			cl["empty-slice"] = true
		}
		for _, e := range x {
			if _, ok := e.(time.Time); ok {
				cl["time-in-array"] = true
			}
			if m, ok := e.(map[string]interface{}); ok {
				for _, mv := range m {
					if _, ok := mv.(time.Time); ok {
						cl["time-in-object-in-array"] = true
					}
				}
			}
			interesting(e, cl)
		}
	case map[string]interface{}:
		if len(x) == 0 {
			cl["empty-map"] = true
		}
		for _, e := range x {
			interesting(e, cl)
		}
	case cs.Doc:
		interesting(map[string]interface{}(x), cl)
	}
}

func validUTF8(s string) bool {
	for _, r := range s {
		if r == '�' {
			return false
		}
	}
	return true
}

// concurrentReaders: several goroutines read the same documents by id and by query at the
// same time; every read must return exactly what was written.
func concurrentReaders(backend string, docs []cs.Doc, readers int) *sm.Fail {
	s, err := c11Session(backend)
	if err != nil {
		return &sm.Fail{Property: "C11", Clause: "harness", Detail: err.Error()}
	}
	defer s.Close()
	for _, op := range []cs.Op{{Kind: "createcoll", Coll: "A"}, {Kind: "insert", Coll: "A", Docs: docs}} {
		if f := s.Do(op); f != nil {
			return f
		}
	}
	fails := make([]*sm.Fail, readers)
	var wg sync.WaitGroup
	// a writer churns other documents of the same collection meanwhile (the fixed documents
	// are never touched): pages get rewritten and freed under the readers
	stop := make(chan struct{})
	var wwg sync.WaitGroup
	wwg.Add(1)
	go func() {
		defer wwg.Done()
		for i := 0; ; i++ {
			select {
			case <-stop:
				return
			default:
			}
			id := gen.Id(500 + i%40)
			run.Exec(s.H.DB, &cs.Op{Kind: "insert", Coll: "A", Docs: []cs.Doc{{"_id": id, "churn": strings.Repeat("z", 300+97*(i%7))}}})
			if i%3 == 2 {
				run.Exec(s.H.DB, &cs.Op{Kind: "deletebyid", Coll: "A", Id: &cs.IdRef{Lit: gen.Id(500 + (i-2)%40)}})
			}
		}
	}()
	for g := 0; g < readers; g++ {
		wg.Add(1)
		go func(g int) {
			defer wg.Done()
			for round := 0; round < 30 && fails[g] == nil; round++ {
				var out *cs.Outcome
				var op cs.Op
				if (g+round)%2 == 0 && g%2 == 0 {
					// the fixed documents are the ones without a "churn" field
					op = cs.Op{Kind: "find", Q: &cs.Query{Coll: "A", Crit: &cs.Crit{Op: "notexists", Field: "churn"}}}
				} else {
					op = cs.Op{Kind: "findbyid", Coll: "A", Id: &cs.IdRef{Lit: docs[(g+round)%len(docs)]["_id"].(string)}}
				}
				out = run.Exec(s.H.DB, &op)
				if strings.HasPrefix(out.Err, "panic") || out.Err == "hang" {
					fails[g] = &sm.Fail{Property: "C20", Clause: "no-panic-no-hang", Detail: "concurrent read: " + out.Err}
					return
				}
				m := s.M.Clone()
				if msg := m.Step(&op, out); msg != "" {
					fails[g] = &sm.Fail{Property: "C11", Clause: "concurrent-read", Detail: fmt.Sprintf("a read issued while %d other readers were active returned something else than what was written: %s", readers-1, msg)}
				}
			}
		}(g)
	}
	wg.Wait()
	close(stop)
	wwg.Wait()
	for _, f := range fails {
		if f != nil {
			return f
		}
	}
	return nil
}

func TestC11(t *testing.T) {
	t.Run("roundtrip", testC11RoundTrip)
	t.Run("concurrent-readers", func(t *testing.T) {
		col := collector("C11", ruleC11)
		cfg := gen.ValCfg{NonUTF8: true, MaxDepth: 3, TimeWide: true}
		check(t, "C11", cases(320, 3000), 0, func(rt *rapid.T) {
			backend := rapid.SampledFrom([]string{run.Bbolt, run.BadgerMem}).Draw(rt, "backend")
			n := rapid.IntRange(2, 12).Draw(rt, "ndocs")
			docs := make([]cs.Doc, n)
			for i := range docs {
				docs[i] = cs.Doc{"_id": gen.Id(i), "v": gen.Value(cfg, 3).Draw(rt, "v"), "w": gen.Array(cfg, 2).Draw(rt, "w")}
			}
			readers := rapid.IntRange(2, 8).Draw(rt, "readers")
			if f := concurrentReaders(backend, docs, readers); f != nil {
				violate(rt, "C11", "c11readers", map[string]interface{}{"backend": backend, "docs": docs, "readers": readers}, f)
			}
			col.Case(true, hashOf(docs, readers, backend), func() interface{} {
				return map[string]interface{}{"mode": "concurrent readers", "backend": backend, "docs": n, "readers": readers}
			}, "concurrent-readers", "backend:"+backend)
		})
	})
}

func testC11RoundTrip(t *testing.T) {
	check(t, "C11", cases(9000, 250000), 0, propC11RoundTrip(collector("C11", ruleC11)))
}

func propC11RoundTrip(col *ev.Collector) func(rt *rapid.T) {
	backends := []string{run.Bbolt, run.Bbolt, run.BadgerMem}
	mixed := gen.ValCfg{NonUTF8: true, LongStr: true, MaxDepth: 4, TimeWide: true, TimeFar: true}
	wide := gen.ValCfg{NonUTF8: true, Wide: true, MaxDepth: 4, TimeWide: true, TimeFar: true}
	names := []string{"x", "y", "n", "s", "t", "deep", ""}
	return func(rt *rapid.T) {
		backend := rapid.SampledFrom(backends).Draw(rt, "backend")
		s, err := c11Session(backend)
		if err != nil {
			rt.Fatalf("open: %v", err)
		}
		defer s.Close()
		do := func(op cs.Op) {
			if f := s.Do(op); f != nil {
				violate(rt, "C11", "c11", s.Program(f), f)
			}
		}
		value := func(label string) interface{} {
			cfg := mixed
			if rapid.IntRange(0, 2).Draw(rt, "regime") == 0 {
				cfg = wide
			}
			d := rapid.SampledFrom([]int{0, 1, 2, 3, 4}).Draw(rt, "depth")
			switch rapid.IntRange(0, 3).Draw(rt, "shape") {
			case 0:
				return gen.Array(cfg, d).Draw(rt, label)
			case 1:
				return gen.Object(cfg, d).Draw(rt, label)
			}
			return gen.Value(cfg, d).Draw(rt, label)
		}
		mkdoc := func(id string) cs.Doc {
			d := cs.Doc{"_id": id}
			n := rapid.IntRange(1, 5).Draw(rt, "nfields")
			for i := 0; i < n; i++ {
				d[rapid.SampledFrom(names).Draw(rt, "fname")] = value("fval")
			}
			return d
		}
		record := func(d cs.Doc) {
			if f := encodeRoundTrip(d); f != nil {
				violate(rt, "C11", "c11enc", d, f)
			}
			cl := map[string]bool{}
			interesting(d, cl)
			depth := depthOf(d) - 1
			nt := depth >= 2 || cl["time"] || cl["uint64"] || cl["int-beyond-2^53"] || cl["non-utf8"]
			cls := []string{"backend:" + backend, fmt.Sprintf("depth:%d", depth)}
			for k := range cl {
				cls = append(cls, k)
			}
			col.Case(nt, hashOf(d), func() interface{} { return cs.Show(d) }, cls...)
		}
		do(cs.Op{Kind: "createcoll", Coll: "A"})
		if rapid.Bool().Draw(rt, "nested-index") {
			// an index on a nested path: maintaining it reads the path on every written document,
			// also on those holding a scalar where the path expects an object
			do(cs.Op{Kind: "createindex", Coll: "A", Field: rapid.SampledFrom([]string{"n.deep", "x.a", "s.k", "deep.a.b"}).Draw(rt, "nested-index-field")})
		}
		d0, d1, d2 := mkdoc(gen.Id(0)), mkdoc(gen.Id(1)), mkdoc(gen.Id(2))
		do(cs.Op{Kind: "insert", Coll: "A", Docs: []cs.Doc{d0, d1}})
		do(cs.Op{Kind: "save", Coll: "A", Docs: []cs.Doc{d2}}) // unknown id: ErrDocumentNotExist by the model
		d2b := mkdoc(gen.Id(1))
		do(cs.Op{Kind: "save", Coll: "A", Docs: []cs.Doc{d2b}}) // replaces document 1
		d3 := mkdoc(gen.Id(0))
		do(cs.Op{Kind: "replace", Coll: "A", Id: &cs.IdRef{Lit: gen.Id(0)}, Docs: []cs.Doc{d3}})
		uv := value("updval")
		do(cs.Op{Kind: "updatebyid", Coll: "A", Id: &cs.IdRef{Lit: gen.Id(0)}, Upd: &cs.Updater{Kind: "set", Field: "n.deep", Value: cs.V{X: uv}}})
		uv2 := value("updval2")
		do(cs.Op{Kind: "update", Q: &cs.Query{Coll: "A"}, UpdMap: map[string]cs.V{"s": {X: uv2}}})
		// rewrite a field with a value that compares equal but is not identical (5 as float64 instead
		// of int64, the same instant in another zone, ...): the new representation must be stored
		if cur := s.M.Colls["A"].Docs[gen.Id(1)]; cur != nil {
			for _, k := range cs.SortedKeys(cur) {
				if k == "_id" {
					continue
				}
				nv := gen.Near(gen.ValCfg{NonUTF8: true}, cur[k]).Draw(rt, "retype")
				if !model.IsFinite(nv) {
					continue
				}
				do(cs.Op{Kind: "update", Q: &cs.Query{Coll: "A", Crit: &cs.Crit{Op: "eq", Field: "_id", Arg: &cs.Operand{Kind: "lit", Lit: cs.V{X: gen.Id(1)}}}}, UpdMap: map[string]cs.V{k: {X: nv}}})
				break
			}
		}
		for _, d := range []cs.Doc{d0, d1, d2b, d3, {"_id": gen.Id(9), "v": uv}, {"_id": gen.Id(9), "v": uv2}} {
			record(d)
		}
		read := func() {
			do(cs.Op{Kind: "find", Q: &cs.Query{Coll: "A"}})
			do(cs.Op{Kind: "findbyid", Coll: "A", Id: &cs.IdRef{Lit: gen.Id(0)}})
			do(cs.Op{Kind: "findbyid", Coll: "A", Id: &cs.IdRef{Lit: gen.Id(1)}})
			// read through criteria that look into the values (Contains on an array field, In on a
			// scalar one): evaluating them must not disturb what is returned
			if c := s.M.Colls["A"]; c != nil {
				for _, id := range c.Ids() {
					d := c.Docs[id]
					for _, k := range cs.SortedKeys(d) {
						if a, ok := d[k].([]interface{}); ok && len(a) >= 2 && k != "" {
							if last := a[len(a)-1]; model.IsFinite(last) && !model.HasBadLiteral(&cs.Crit{Op: "eq", Field: k, Arg: &cs.Operand{Kind: "lit", Lit: cs.V{X: last}}}) {
								o := cs.Operand{Kind: "lit", Lit: cs.V{X: cs.Clone(last)}}
								do(cs.Op{Kind: "find", Q: &cs.Query{Coll: "A", Crit: &cs.Crit{Op: "contains", Field: k, Args: []cs.Operand{o}}}})
								return
							}
						}
					}
				}
			}
		}
		read()
		if run.OnDisk(backend) {
			do(cs.Op{Kind: "reopen"})
			read()
			col.Class("reopened")
		}
	}
}
