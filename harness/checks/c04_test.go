package checks

import (
	"bytes"
	"encoding/json"
	"fmt"
	"strings"
	"testing"

	"github.com/ostafen/clover/v2/document"
	"pgregory.net/rapid"

	"verif/harness/cs"
	"verif/harness/ev"
	"verif/harness/gen"
	"verif/harness/run"
	"verif/harness/sm"
)

const ruleC04 = "a generated state (seed batch, optional indexes, 0-6 further writes) and one operation under test of every kind (Insert batches, Save, ReplaceById, UpdateById, Update/UpdateFunc with and without sort/skip/limit, Delete, DeleteById, Create/DropCollection, Create/DropIndex, ImportCollection, CreateCollectionByQuery, ExportCollection and all reads), on bbolt and badger. (i) invalid input: duplicate/malformed _id at any batch position (incl. position 1000+ of batches of 1001-2500 documents), criteria operands that cannot be normalised, invalid update results, missing/existing collection/index/document: when the call returns an error the raw key/value dump of the undecorated store must equal the dump before the call. (ii) store faults: a dry run on a clone gives the number M of fallible store calls (begin, get, set, delete, cursor item, commit) the operation makes; for each chosen position k <= M (quick: at most 40 spread evenly with both ends; thorough: every k up to 400, evenly spread beyond) the k-th call fails: the call must return an error, the dump must be unchanged (values compared decoded when bytes differ). Afterwards a CreateCollection + Insert on the same handle must succeed within the deadline and the un-faulted operation must behave as the model says. An evaluation is one faulted (or invalid) run; non-trivial when the failing call comes after at least one successful Set/Delete of the same operation, or the offending document is at batch position >= 1; distinct = distinct (state, operation, k)."

type c04Case struct {
	Backend string  `json:"backend"`
	Ops     []cs.Op `json:"ops"` // state-building program
	Op      cs.Op   `json:"op"`  // operation under test (literal ids)
	K       int64   `json:"k"`   // failing call position (0 = no fault: invalid-input family)
}

func c04Profile() *sm.Profile {
	return &sm.Profile{
		Name:        "c04",
		Colls:       []string{"A", "B", "C"},
		IndexFields: []string{"x", "y", "u", "n.a"},
		Doc:         gen.DocCfg{Val: gen.ValCfg{MaxDepth: 1}, PAbsent: 4},
		IdPool:      24,
		MaxDocs:     14,
		BadIds:      true,
		BadDocs:     true,
		Crit:        gen.CritEnv{Val: gen.ValCfg{MaxDepth: 0}, MaxDepth: 2, NoFunc: true, Bad: true},
		Weights: []sm.W{{Kind: "biginsert", Weight: 3}, {Kind: "bigimport", Weight: 2}, {Kind: "createcoll", Weight: 4}, {Kind: "dropcoll", Weight: 5}, {Kind: "insert", Weight: 16}, {Kind: "insertone", Weight: 2},
			{Kind: "save", Weight: 5}, {Kind: "replace", Weight: 6}, {Kind: "updatebyid", Weight: 7}, {Kind: "update", Weight: 10},
			{Kind: "updatefunc", Weight: 10}, {Kind: "delete", Weight: 8}, {Kind: "deletebyid", Weight: 6}, {Kind: "createindex", Weight: 8},
			{Kind: "dropindex", Weight: 6}, {Kind: "import", Weight: 7}, {Kind: "createbyquery", Weight: 7}, {Kind: "export", Weight: 3},
			{Kind: "find", Weight: 5}, {Kind: "count", Weight: 3}, {Kind: "findbyid", Weight: 2}, {Kind: "exists", Weight: 2},
			{Kind: "findfirst", Weight: 2}, {Kind: "foreach", Weight: 2}, {Kind: "iterate", Weight: 2}, {Kind: "listcolls", Weight: 1}, {Kind: "hascoll", Weight: 1},
			{Kind: "hasindex", Weight: 1}, {Kind: "listindexes", Weight: 1}},
	}
}

func c04Session(backend string) (*sm.Session, error) { return sm.NewSession("C04", "c04", backend) }

// sameDump compares two raw dumps; where value bytes differ, documents and metadata are
// compared decoded (msgpack map order is not canonical).
func sameDump(a, b []run.Item) string {
	ma := map[string][]byte{}
	for _, it := range a {
		ma[string(it.Key)] = it.Value
	}
	mb := map[string][]byte{}
	for _, it := range b {
		mb[string(it.Key)] = it.Value
	}
	for k := range ma {
		if _, ok := mb[k]; !ok {
			return fmt.Sprintf("key %q disappeared", k)
		}
	}
	for k, vb := range mb {
		va, ok := ma[k]
		if !ok {
			return fmt.Sprintf("key %q appeared", k)
		}
		if bytes.Equal(va, vb) {
			continue
		}
		if strings.Contains(k, ";d:") {
			da, e1 := document.Decode(va)
			db, e2 := document.Decode(vb)
			if e1 == nil && e2 == nil && cs.StrictEqual(map[string]interface{}(run.FromDocument(da)), map[string]interface{}(run.FromDocument(db))) {
				continue
			}
			return fmt.Sprintf("document %q changed: %s -> %s", k, cs.Show(run.FromDocument(da)), cs.Show(run.FromDocument(db)))
		}
		if strings.HasPrefix(k, "coll:") {
			var x, y interface{}
			if json.Unmarshal(va, &x) == nil && json.Unmarshal(vb, &y) == nil && fmt.Sprint(x) == fmt.Sprint(y) {
				continue
			}
		}
		return fmt.Sprintf("value of key %q changed: %q -> %q", k, va, vb)
	}
	return ""
}

// c04Run rebuilds the state and runs the operation with the K-th store call failing.
// It also returns the session (caller closes) positioned after the faulted run.
func c04Run(c *c04Case) *sm.Fail {
	s, err := c04Session(c.Backend)
	if err != nil {
		return &sm.Fail{Property: "C04", Clause: "harness", Detail: "open: " + err.Error()}
	}
	defer s.Close()
	for _, op := range c.Ops {
		if f := s.Do(op); f != nil {
			return f
		}
	}
	return c04Fault(s, &c.Op, c.K)
}

func c04Fault(s *sm.Session, op *cs.Op, k int64) *sm.Fail {
	bad := func(clause, f string, a ...interface{}) *sm.Fail {
		return &sm.Fail{Property: "C04", Clause: clause, Detail: fmt.Sprintf(f, a...) + fmt.Sprintf("  [op %s, failing store call %d]", clipStr(op.String(), 600), k)}
	}
	before, err := run.Dump(s.H.Raw)
	if err != nil {
		return bad("harness", "dump: %v", err)
	}
	r := sm.Materialize(*op)
	if r.Path != "" && !strings.HasPrefix(r.Path, "/") {
		r.Path = s.FilesDir() + "/" + r.Path
	}
	if r.Kind == "import" && r.Content != "" {
		writeFile(r.Path, r.Content)
	}
	s.H.Deco.Arm(k, true)
	out := run.Exec(s.H.DB, &r)
	fired, firedKind := s.H.Deco.Fired, s.H.Deco.FiredAt
	s.H.Deco.Disarm()
	if strings.HasPrefix(out.Err, "panic") || out.Err == "hang" {
		return &sm.Fail{Property: "C20", Clause: "no-panic-no-hang", Detail: fmt.Sprintf("%s with failing store call %d: %s", op.Kind, k, out.Err)}
	}
	if k > 0 && fired && out.Err == "" {
		return bad("fault-swallowed", "store call %d (%s) failed but the operation returned success", k, run.KindNames[firedKind])
	}
	if out.Err != "" {
		if f := ghostProbe(s, "C04", []string{"A", "B", "C"}); f != nil {
			f.Detail += fmt.Sprintf("  [after %s failed with %q, failing store call %d]", op.Kind, clipStr(out.Err, 80), k)
			return f
		}
		after, err := run.Dump(s.H.Raw)
		if err != nil {
			return bad("harness", "dump: %v", err)
		}
		if msg := sameDump(before, after); msg != "" {
			return bad("trace", "the operation returned %q but left a trace: %s", clipStr(out.Err, 120), msg)
		}
	}
	return nil
}

func clipStr(s string, n int) string {
	if len(s) > n {
		return s[:n] + "…"
	}
	return s
}

func init() {
	registerSM("C04", "c04sm", c04Session)
	replayers["c04"] = func(raw json.RawMessage) *sm.Fail {
		var c c04Case
		if err := json.Unmarshal(raw, &c); err != nil {
			return &sm.Fail{Property: "C04", Clause: "replay", Detail: err.Error()}
		}
		return c04Run(&c)
	}
}

func TestC04(t *testing.T) {
	col := collector("C04", ruleC04)
	maxPos := ev.Scale(40, 400)
	check(t, "C04", cases(800, 3000), 0, func(rt *rapid.T) {
		backend := rapid.SampledFrom([]string{run.Bbolt, run.Bbolt, run.BadgerMem}).Draw(rt, "backend")
		p := c04Profile()
		s, err := c04Session(backend)
		if err != nil {
			rt.Fatalf("open: %v", err)
		}
		defer s.Close()
		do := func(op cs.Op) {
			if f := s.Do(op); f != nil {
				violate(rt, "C04", "c04sm", s.Program(f), f)
			}
		}
		p.Seed(rt, s, do)
		// state building uses writes only
		build := *p
		build.Weights = []sm.W{{Kind: "createcoll", Weight: 3}, {Kind: "insert", Weight: 8}, {Kind: "updatebyid", Weight: 3}, {Kind: "update", Weight: 3},
			{Kind: "deletebyid", Weight: 2}, {Kind: "createindex", Weight: 5}, {Kind: "dropindex", Weight: 1}}
		for i := rapid.IntRange(0, 6).Draw(rt, "nbuild"); i > 0; i-- {
			do(build.Draw(rt, s))
		}
		op := p.Draw(rt, s)
		if backend == run.BadgerMem && rapid.IntRange(0, 5).Draw(rt, "force-big") == 0 {
			// on the in-memory badger store a batch of thousands exceeds one store transaction: the
			// operation must be refused as a whole, whichever store call fails
			big := *p
			big.Weights = []sm.W{{Kind: "biginsert", Weight: 3}, {Kind: "bigimport", Weight: 2}}
			op = big.Draw(rt, s)
		}
		if op.Kind == "count" && rapid.Bool().Draw(rt, "count-from-metadata") {
			// Count without criteria answers from the collection metadata (minus skip, capped by limit)
			op.Q.Crit = nil
			sk := rapid.SampledFrom([]int{1, 0, 2, 50}).Draw(rt, "count-skip")
			op.Q.Skip = &sk
		}
		if op.Q != nil && op.Kind != "createbyquery" && rapid.IntRange(0, 11).Draw(rt, "force-bad-literal") == 0 {
			// invalid input of the query kind: an operand that cannot be normalised
			op.Q.Crit = &cs.Crit{Op: rapid.SampledFrom([]string{"gt", "eq", "in"}).Draw(rt, "badop"), Field: "x", Arg: &cs.Operand{Kind: "bad"}}
			if op.Q.Crit.Op == "in" {
				op.Q.Crit.Arg, op.Q.Crit.Args = nil, []cs.Operand{{Kind: "bad"}}
			}
		}
		stateOps := append([]cs.Op{}, s.Ops...)

		// dry run on a clone: how many fallible store calls does the operation make?
		clone, err := c04Session(backend)
		if err != nil {
			rt.Fatalf("open clone: %v", err)
		}
		for _, o := range stateOps {
			clone.Do(o)
		}
		r := sm.Materialize(op)
		if r.Path != "" && !strings.HasPrefix(r.Path, "/") {
			r.Path = clone.FilesDir() + "/" + r.Path
		}
		if r.Kind == "import" && r.Content != "" {
			writeFile(r.Path, r.Content)
		}
		clone.H.Deco.Arm(0, true)
		dry := run.Exec(clone.H.DB, &r)
		m := clone.H.Deco.Seq
		trace := append([]int{}, clone.H.Deco.Trace...)
		clone.H.Deco.Disarm()
		clone.Close()

		// positions
		var ks []int64
		if m <= int64(maxPos) {
			for k := int64(1); k <= m; k++ {
				ks = append(ks, k)
			}
		} else {
			seen := map[int64]bool{}
			for i := 0; i < maxPos; i++ {
				k := 1 + int64(i)*(m-1)/int64(maxPos-1)
				if !seen[k] {
					seen[k] = true
					ks = append(ks, k)
				}
			}
		}
		cse := &c04Case{Backend: backend, Ops: stateOps, Op: op}
		classify := func(k int64) (bool, []string) {
			cl := []string{"backend:" + backend, "op:" + op.Kind}
			nt := false
			if k > 0 {
				cl = append(cl, "failing:"+run.KindNames[trace[k-1]])
				for _, kind := range trace[:k-1] {
					if kind == run.KSet || kind == run.KDelete {
						nt = true
					}
				}
				if nt {
					cl = append(cl, "after-partial-write")
				}
			} else {
				cl = append(cl, "invalid-input")
			}
			if op.Q != nil && op.Q.SortSet {
				cl = append(cl, "sorted-bulk")
			}
			if op.Q != nil && (op.Q.Skip != nil || op.Q.Limit != nil) {
				cl = append(cl, "windowed-bulk")
			}
			return nt, cl
		}
		for _, k := range ks {
			cse.K = k
			if f := c04Fault(s, &op, k); f != nil {
				violate(rt, "C04", "c04", cse, f)
			}
			nt, cl := classify(k)
			col.Case(nt, hashOf(stateOps, op, k), func() interface{} {
				return map[string]interface{}{"op": op, "store_calls": m, "failing_call": k, "kind": run.KindNames[trace[k-1]], "state_ops": len(stateOps), "backend": backend}
			}, cl...)
		}
		// the handle must still be usable
		for _, fo := range []cs.Op{{Kind: "createcoll", Coll: "followup"}, {Kind: "insert", Coll: "followup", Docs: []cs.Doc{{"_id": gen.Id(0), "x": int64(1)}}}, {Kind: "dropcoll", Coll: "followup"}} {
			if out := run.Exec(s.H.DB, &fo); out.Err != "" {
				f := &sm.Fail{Property: "C04", Clause: "wedged", Detail: fmt.Sprintf("after %d injected failures of %s the follow-up %s returned %q", len(ks), op.Kind, fo.Kind, out.Err)}
				cse.K = ks[len(ks)-1]
				violate(rt, "C04", "c04", cse, f)
			}
		}
		// invalid-input family and the un-faulted behaviour (model-checked)
		cse.K = 0
		if dry.Err != "" {
			if f := c04Fault(s, &op, 0); f != nil {
				violate(rt, "C04", "c04", cse, f)
			}
			nt := false
			cl := []string{"backend:" + backend, "op:" + op.Kind, "invalid-input", "error:" + strings.SplitN(dry.Err, ":", 2)[0]}
			for i, d := range op.Docs {
				if i >= 1 {
					if _, isStr := d["_id"].(string); !isStr || !strings.HasPrefix(d["_id"].(string), "0000") {
						nt = true
					}
				}
			}
			for _, kind := range trace {
				if kind == run.KSet || kind == run.KDelete {
					nt = true
				}
			}
			col.Case(nt, hashOf(stateOps, op, 0), func() interface{} {
				return map[string]interface{}{"op": op, "error": clipStr(dry.Err, 100), "state_ops": len(stateOps), "backend": backend}
			}, cl...)
		}
		do(op)
	})
}
