package checks

import (
	"encoding/json"
	"errors"
	"fmt"
	"os"
	"sort"
	"strings"
	"testing"
	"time"

	"github.com/ostafen/clover/v2/index"
	"pgregory.net/rapid"

	"verif/harness/cs"
	"verif/harness/ev"
	"verif/harness/gen"
	"verif/harness/model"
	"verif/harness/run"
	"verif/harness/sm"
)

const ruleC17 = "an index (index.CreateIndex(...).(index.RangeIndex)) populated through Add with 0-30 entries holding duplicate, nil and mixed-type values (numbers within 2^53 with floats, strings with 0x00/0xFF, containers, times from 1970) on a real bbolt or badger transaction, scanned either inside the writing transaction or from a new transaction after commit, next to an optional second index whose field name extends, precedes or follows this one (so the scanned index may hold the last keys of the store). IterateRange over generated ranges (bounds mostly equal to stored values, both inclusivity flags, open ends, the nil-only range, both directions, a consumer that fails after k calls), Iterate in both directions, and Intersect / IsEmpty on pairs of ranges are compared with a filtered sorted-slice model (reference comparator): exactly the in-range ids once each, values monotone in the scan direction, stop after exactly k callbacks; v in r1 and v in r2 => v in r1.Intersect(r2); IsEmpty(r) => no test value in r. An evaluation is one scan or one range pair; non-trivial when entries lie both inside and outside the range and a bound equals a stored value; distinct = distinct (entries, range, direction)."

type c17Range struct {
	Start, End       cs.V
	StartInc, EndInc bool
}

type c17Case struct {
	Backend string     `json:"backend"`
	SameTx  bool       `json:"sametx"`
	Decoy   string     `json:"decoy"`            // field of a second index in the same store ("" = none)
	Coll    string     `json:"coll,omitempty"`   // collection name of the index (default "c")
	Field   string     `json:"field,omitempty"`  // field name of the index (default "f")
	Faults  bool       `json:"faults,omitempty"` // additionally fail every cursor read position once
	Values  []cs.V     `json:"values"`           // entry i has id gen.Id(i)
	Ranges  []c17Range `json:"ranges"`
	Reverse []bool     `json:"reverse"`
	StopAt  []int      `json:"stopat"`
}

func (r c17Range) clover() *index.Range {
	return &index.Range{Start: cs.Clone(r.Start.X), End: cs.Clone(r.End.X), StartIncluded: r.StartInc, EndIncluded: r.EndInc}
}

func (r c17Range) nilOnly() bool { return r.Start.X == nil && r.End.X == nil && r.StartInc && r.EndInc }

func inRange(v interface{}, start, end interface{}, si, ei bool) bool {
	if start == nil && end == nil && si && ei {
		return v == nil
	}
	if start != nil {
		c := model.Cmp(v, start)
		if c < 0 || (c == 0 && !si) {
			return false
		}
	}
	if end != nil {
		c := model.Cmp(v, end)
		if c > 0 || (c == 0 && !ei) {
			return false
		}
	}
	return true
}

func (r c17Range) String() string {
	l, rr := "(", ")"
	if r.StartInc {
		l = "["
	}
	if r.EndInc {
		rr = "]"
	}
	return l + cs.Show(r.Start.X) + ", " + cs.Show(r.End.X) + rr
}

var errStop = errors.New("verif: consumer stop")

func runC17(c *c17Case) *sm.Fail {
	var f *sm.Fail
	out := run.Guard(func(o *cs.Outcome) { f = c17Body(c) })
	if out.Err != "" {
		return &sm.Fail{Property: "C20", Clause: "no-panic-no-hang", Detail: "index API: " + out.Err}
	}
	return f
}

func c17Body(c *c17Case) *sm.Fail {
	bad := func(clause, f string, a ...interface{}) *sm.Fail {
		return &sm.Fail{Property: "C17", Clause: clause, Detail: fmt.Sprintf(f, a...)}
	}
	dir := run.NewScratchDir("C17")
	defer os.RemoveAll(dir)
	st, err := run.OpenStore(c.Backend, dir)
	if err != nil {
		return bad("harness", "open: %v", err)
	}
	defer st.Close()
	tx, err := st.Begin(true)
	if err != nil {
		return bad("harness", "begin: %v", err)
	}
	coll, field := c.Coll, c.Field
	if coll == "" {
		coll = "c"
	}
	if field == "" {
		field = "f"
	}
	idx := index.CreateIndex(coll, field, index.SingleField, tx).(index.RangeIndex)
	var decoy index.Index
	if c.Decoy != "" {
		decoy = index.CreateIndex(coll, c.Decoy, index.SingleField, tx)
	}
	valOf := map[string]interface{}{}
	for i, v := range c.Values {
		id := gen.Id(i)
		valOf[id] = v.X
		if err := idx.Add(id, cs.Clone(v.X), time.Duration(-1)); err != nil {
			tx.Rollback()
			return bad("add", "Add(%s) failed: %v", cs.Show(v.X), err)
		}
		if decoy != nil {
			if err := decoy.Add(gen.Id(100+i), cs.Clone(v.X), time.Duration(-1)); err != nil {
				tx.Rollback()
				return bad("add", "Add(%s) failed: %v", cs.Show(v.X), err)
			}
		}
	}
	if !c.SameTx {
		if err := tx.Commit(); err != nil {
			return bad("harness", "commit: %v", err)
		}
		tx, err = st.Begin(false)
		if err != nil {
			return bad("harness", "begin: %v", err)
		}
		idx = index.CreateIndex(coll, field, index.SingleField, tx).(index.RangeIndex)
	}
	defer tx.Rollback()

	checkSeq := func(what string, got []string, want map[string]bool, reverse bool, complete bool) *sm.Fail {
		seen := map[string]bool{}
		for i, id := range got {
			if seen[id] {
				return bad("scan", "%s: id %q delivered twice", what, id)
			}
			seen[id] = true
			v, known := valOf[id]
			if !known {
				return bad("scan", "%s: unknown id %q delivered (entry of another index?)", what, id)
			}
			if !want[id] {
				return bad("scan", "%s: id %q (value %s) is outside the range", what, id, cs.Show(v))
			}
			if i > 0 {
				cmp := model.Cmp(valOf[got[i-1]], v)
				if (!reverse && cmp > 0) || (reverse && cmp < 0) {
					return bad("order", "%s: value %s delivered after %s", what, cs.Show(v), cs.Show(valOf[got[i-1]]))
				}
			}
		}
		if complete && len(got) != len(want) {
			missing := []string{}
			for id := range want {
				if !seen[id] {
					missing = append(missing, fmt.Sprintf("%s=%s", id[:8], cs.Show(valOf[id])))
				}
			}
			sort.Strings(missing)
			return bad("scan", "%s: %d of %d in-range entries delivered; missing %s", what, len(got), len(want), strings.Join(missing, " "))
		}
		return nil
	}

	all := map[string]bool{}
	storedVals := map[string]bool{}
	for id := range valOf {
		all[id] = true
		storedVals[cs.Show(valOf[id])] = true
	}
	for _, rev := range []bool{false, true} {
		var got []string
		if err := idx.Iterate(rev, func(id string) error { got = append(got, id); return nil }); err != nil {
			return bad("iterate", "Iterate(reverse=%v) failed: %v", rev, err)
		}
		if f := checkSeq(fmt.Sprintf("Iterate(reverse=%v)", rev), got, all, rev, true); f != nil {
			return f
		}
	}
	for i, r := range c.Ranges {
		rev, stop := c.Reverse[i], c.StopAt[i]
		want := map[string]bool{}
		for id, v := range valOf {
			if inRange(v, r.Start.X, r.End.X, r.StartInc, r.EndInc) {
				want[id] = true
			}
		}
		what := fmt.Sprintf("IterateRange(%s, reverse=%v)", r, rev)
		var got []string
		if err := idx.IterateRange(r.clover(), rev, func(id string) error { got = append(got, id); return nil }); err != nil {
			return bad("scan", "%s failed: %v", what, err)
		}
		if f := checkSeq(what, got, want, rev, true); f != nil {
			return f
		}
		if c.Faults && !c.SameTx {
			// a scan whose k-th cursor read fails must report the error or - if it can tolerate
			// the failure - still deliver exactly the in-range entries; never a wrong result
			for k := int64(1); k <= 60; k++ {
				deco := run.NewDeco(st)
				ftx, err := deco.Begin(false)
				if err != nil {
					return bad("harness", "begin: %v", err)
				}
				fidx := index.CreateIndex(coll, field, index.SingleField, ftx).(index.RangeIndex)
				deco.Arm(k, false)
				var fgot []string
				ferr := fidx.IterateRange(r.clover(), rev, func(id string) error { fgot = append(fgot, id); return nil })
				fired := deco.Fired
				deco.Disarm()
				ftx.Rollback()
				if !fired {
					break
				}
				if ferr == nil {
					if f := checkSeq(fmt.Sprintf("%s with cursor read %d failing once (no error returned)", what, k), fgot, want, rev, true); f != nil {
						f.Clause = "fault"
						return f
					}
				}
			}
		}
		if stop > 0 && stop <= len(want) {
			calls := 0
			err := idx.IterateRange(r.clover(), rev, func(id string) error {
				calls++
				if calls >= stop {
					return errStop
				}
				return nil
			})
			if calls != stop {
				return bad("stop", "%s: consumer failed at call %d but was invoked %d times", what, stop, calls)
			}
			if err != nil && !errors.Is(err, errStop) {
				return bad("stop", "%s: unexpected error %v", what, err)
			}
		}
		// Intersect / IsEmpty against the test values (all stored values and all bounds)
		if r.clover().IsEmpty() && len(want) > 0 {
			return bad("isempty", "IsEmpty(%s) = true but %d stored values lie in it", r, len(want))
		}
		if i > 0 {
			r2 := c.Ranges[i-1]
			for dir := 0; dir < 2; dir++ {
				in := r.clover().Intersect(r2.clover())
				if dir == 1 {
					in = r2.clover().Intersect(r.clover())
				}
				probe := []interface{}{}
				for _, v := range c.Values {
					probe = append(probe, v.X)
				}
				for _, rr := range c.Ranges {
					probe = append(probe, rr.Start.X, rr.End.X)
				}
				for _, v := range probe {
					if inRange(v, r.Start.X, r.End.X, r.StartInc, r.EndInc) && inRange(v, r2.Start.X, r2.End.X, r2.StartInc, r2.EndInc) {
						if !inRange(v, run.Canon(in.Start), run.Canon(in.End), in.StartIncluded, in.EndIncluded) {
							return bad("intersect", "%s lies in %s and in %s but not in their intersection %s", cs.Show(v), r, r2,
								c17Range{Start: cs.V{X: run.Canon(in.Start)}, End: cs.V{X: run.Canon(in.End)}, StartInc: in.StartIncluded, EndInc: in.EndIncluded})
						}
						if in.IsEmpty() {
							return bad("isempty", "intersection of %s and %s is reported empty but contains %s", r, r2, cs.Show(v))
						}
						// and the scan over the intersection must deliver every stored entry holding v
						if _, stored := storedVals[cs.Show(v)]; stored {
							for _, back := range []bool{false, true} {
								found := false
								idx.IterateRange(in, back, func(id string) error {
									if model.Cmp(valOf[id], v) == 0 {
										found = true
									}
									return nil
								})
								if !found {
									return bad("intersect", "stored value %s lies in %s and in %s but a scan (reverse=%v) of their intersection does not deliver it", cs.Show(v), r, r2, back)
								}
							}
						}
					}
				}
			}
		}
	}
	return nil
}

func init() {
	replayers["c17"] = func(raw json.RawMessage) *sm.Fail {
		var c c17Case
		if err := json.Unmarshal(raw, &c); err != nil {
			return &sm.Fail{Property: "C17", Clause: "replay", Detail: err.Error()}
		}
		return runC17(&c)
	}
}

func TestC17(t *testing.T) {
	check(t, "C17", cases(14000, 400000), 0, propC17(collector("C17", ruleC17)))
}

func propC17(col *ev.Collector) func(rt *rapid.T) {
	vcfg := gen.ValCfg{MaxDepth: 1, NonUTF8: true}
	return func(rt *rapid.T) {
		c := &c17Case{Backend: rapid.SampledFrom([]string{run.Bbolt, run.Bbolt, run.BadgerMem}).Draw(rt, "backend"),
			SameTx: rapid.Bool().Draw(rt, "sametx"), Decoy: rapid.SampledFrom([]string{"fx", "fx", "e", "", "f.a"}).Draw(rt, "decoy")}
		if rapid.IntRange(0, 2).Draw(rt, "long-names") == 0 {
			// names of every length: key construction must not depend on it
			c.Coll = strings.Repeat("k", rapid.IntRange(1, 12).Draw(rt, "colllen"))
			c.Field = strings.Repeat("f", rapid.IntRange(1, 72).Draw(rt, "fieldlen"))
			c.Decoy = rapid.SampledFrom([]string{c.Field + "x", "e", ""}).Draw(rt, "decoy2")
		}
		c.Faults = rapid.IntRange(0, 5).Draw(rt, "faults") == 0
		npal := rapid.IntRange(1, 7).Draw(rt, "npalette")
		palette := make([]interface{}, npal)
		for i := range palette {
			palette[i] = noDollar(gen.Value(vcfg, 1).Draw(rt, "pal"))
		}
		n := rapid.SampledFrom([]int{0, 1, 2, 4, 8, 15, 30}).Draw(rt, "nentries")
		for i := 0; i < n; i++ {
			c.Values = append(c.Values, cs.V{X: cs.Clone(rapid.SampledFrom(palette).Draw(rt, "val"))})
		}
		bound := func(label string) interface{} {
			switch rapid.IntRange(0, 9).Draw(rt, label+"k") {
			case 0:
				return nil
			case 1:
				return noDollar(gen.Value(vcfg, 1).Draw(rt, label+"free"))
			case 2:
				// a neighbour of a stored value, kept inside the key domain (times from 1970 on)
				if v := noDollar(gen.Near(vcfg, rapid.SampledFrom(palette).Draw(rt, label+"near0")).Draw(rt, label+"near")); keyDomain(v) {
					return v
				}
			}
			return cs.Clone(rapid.SampledFrom(palette).Draw(rt, label+"stored"))
		}
		nr := rapid.IntRange(2, 6).Draw(rt, "nranges")
		for i := 0; i < nr; i++ {
			r := c17Range{Start: cs.V{X: bound("start")}, End: cs.V{X: bound("end")},
				StartInc: rapid.Bool().Draw(rt, "si"), EndInc: rapid.Bool().Draw(rt, "ei")}
			// an open end is spelled (nil, excluded), as the planner does; nil with the inclusive
			// flag is only used for the nil-only range
			if r.Start.X == nil {
				r.StartInc = false
			}
			if r.End.X == nil {
				r.EndInc = false
			}
			if r.Start.X == nil && r.End.X == nil {
				// only the nil-only range is in the domain when both bounds are nil
				r.StartInc, r.EndInc = true, true
			}
			if rapid.IntRange(0, 3).Draw(rt, "point") == 0 && r.Start.X != nil {
				r.End = cs.V{X: cs.Clone(r.Start.X)}
				r.EndInc = rapid.Bool().Draw(rt, "ei2")
			}
			c.Ranges = append(c.Ranges, r)
			c.Reverse = append(c.Reverse, rapid.Bool().Draw(rt, "reverse"))
			c.StopAt = append(c.StopAt, rapid.IntRange(0, 3).Draw(rt, "stopat"))
		}
		if f := runC17(c); f != nil {
			violate(rt, "C17", "c17", c, f)
		}
		for i, r := range c.Ranges {
			in, out, hit := 0, 0, false
			for _, v := range c.Values {
				if inRange(v.X, r.Start.X, r.End.X, r.StartInc, r.EndInc) {
					in++
				} else {
					out++
				}
				if (r.Start.X != nil && model.Cmp(v.X, r.Start.X) == 0) || (r.End.X != nil && model.Cmp(v.X, r.End.X) == 0) {
					hit = true
				}
			}
			cl := []string{"backend:" + c.Backend, fmt.Sprintf("sametx:%v", c.SameTx), fmt.Sprintf("reverse:%v", c.Reverse[i])}
			if r.nilOnly() {
				cl = append(cl, "nil-only-range")
			}
			if r.Start.X == nil && !r.nilOnly() {
				cl = append(cl, "open-start")
			}
			if r.End.X == nil && !r.nilOnly() {
				cl = append(cl, "open-end")
			}
			if hit {
				cl = append(cl, "bound-equals-stored-value")
			}
			if c.StopAt[i] > 0 && c.StopAt[i] <= in {
				cl = append(cl, "early-stop")
			}
			col.Case(in > 0 && out > 0 && hit, hashOf(c.Values, r, c.Reverse[i], c.SameTx, c.Backend), func() interface{} {
				return map[string]interface{}{"entries": len(c.Values), "range": r.String(), "reverse": c.Reverse[i], "in_range": in, "backend": c.Backend, "same_tx": c.SameTx}
			}, cl...)
		}
	}
}
