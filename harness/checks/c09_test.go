package checks

import (
	"bytes"
	"fmt"
	"testing"

	"github.com/ostafen/clover/v2/document"
	"github.com/ostafen/clover/v2/query"
	"pgregory.net/rapid"

	"verif/harness/cs"
	"verif/harness/gen"
	"verif/harness/model"
	"verif/harness/run"
	"verif/harness/sm"
)

const ruleC09 = "model-based state machine (writes incl. deletes of absent ids and failed operations) whose read steps run, on the same state and the same query object, FindAll, Count, Exists, FindFirst, ForEach (complete and with a consumer returning false at call k) and compare them with each other: Count = len, Exists iff len > 0 (limit != 0), FindFirst = the first element of FindAll (the same document, also among ties), ForEach = exactly the FindAll sequence and exactly k consumer calls with no store read after the stop; FindById iff live (model). The query object (collection, criteria structure and identity, skip, limit, sort options) is digested before and after all calls and after calling every builder method on it, and the raw store dump before and after the reads must be identical. An evaluation is one derived-call comparison; non-trivial when the query has criteria or a window and a non-empty result, or an early stop with 0 < k < len; distinct = distinct (query, collection contents). A second part races reads with index creation/drop and writes and requires every read to be the answer of some state between its call and its return (linearizability)."

func c09Profile() *sm.Profile {
	return &sm.Profile{
		Name:        "c09",
		FaultRate:   12,
		Colls:       []string{"A", "B"},
		IndexFields: []string{"x", "y", "u", "_id", "n.a"},
		Doc:         gen.DocCfg{Val: gen.ValCfg{MaxDepth: 1}, PAbsent: 4},
		IdPool:      24,
		MaxDocs:     20, // above 12: sort.Slice is an insertion sort (stable) up to 12 elements only
		BadIds:      true,
		BadDocs:     true,
		Crit:        gen.CritEnv{Val: gen.ValCfg{MaxDepth: 1}, GoKinds: true, MaxDepth: 3},
		Weights: []sm.W{{Kind: "createcoll", Weight: 3}, {Kind: "insert", Weight: 12}, {Kind: "save", Weight: 3}, {Kind: "replace", Weight: 3},
			{Kind: "updatebyid", Weight: 5}, {Kind: "update", Weight: 4}, {Kind: "updatefunc", Weight: 4}, {Kind: "delete", Weight: 4},
			{Kind: "deletebyid", Weight: 8}, {Kind: "createindex", Weight: 5}, {Kind: "dropindex", Weight: 2}, {Kind: "dropcoll", Weight: 1},
			{Kind: "find", Weight: 40}, {Kind: "findbyid", Weight: 6}},
	}
}

func guardErr(f func() error) (err error, abnormal string) {
	out := run.Guard(func(o *cs.Outcome) {
		if e := f(); e != nil {
			o.Err = run.ErrName(e)
			err = e
		}
	})
	if out.Err == "hang" || len(out.Err) > 5 && out.Err[:5] == "panic" {
		return nil, out.Err
	}
	return err, ""
}

// derivedHook performs the C09 comparison for every "find" step.
func derivedHook(s *sm.Session, op *cs.Op, _ *cs.Outcome) *sm.Fail {
	if op.Kind != "find" || s.M.Closed {
		return nil
	}
	bad := func(clause, f string, a ...interface{}) *sm.Fail {
		return &sm.Fail{Property: "C09", Clause: clause, Detail: fmt.Sprintf(f, a...) + "  [query " + op.Q.String() + "]"}
	}
	db := s.H.DB
	cq := run.BuildQuery(op.Q)
	digest0 := run.QueryDigest(cq)
	before, err := run.Dump(s.H.Raw)
	if err != nil {
		return bad("harness", "dump failed: %v", err)
	}

	var all []*document.Document
	var cnt int
	var ex bool
	var first *document.Document
	var each, iter []*document.Document
	var errAll, errCnt, errEx, errFirst, errEach, errIter error
	var ab string
	if errAll, ab = guardErr(func() (e error) { all, e = db.FindAll(cq); return }); ab != "" {
		return &sm.Fail{Property: "C20", Clause: "no-panic-no-hang", Detail: "FindAll: " + ab}
	}
	if errCnt, ab = guardErr(func() (e error) { cnt, e = db.Count(cq); return }); ab != "" {
		return &sm.Fail{Property: "C20", Clause: "no-panic-no-hang", Detail: "Count: " + ab}
	}
	if errEx, ab = guardErr(func() (e error) { ex, e = db.Exists(cq); return }); ab != "" {
		return &sm.Fail{Property: "C20", Clause: "no-panic-no-hang", Detail: "Exists: " + ab}
	}
	if errFirst, ab = guardErr(func() (e error) { first, e = db.FindFirst(cq); return }); ab != "" {
		return &sm.Fail{Property: "C20", Clause: "no-panic-no-hang", Detail: "FindFirst: " + ab}
	}
	if errEach, ab = guardErr(func() error {
		return db.ForEach(cq, func(d *document.Document) bool { each = append(each, d); return true })
	}); ab != "" {
		return &sm.Fail{Property: "C20", Clause: "no-panic-no-hang", Detail: "ForEach: " + ab}
	}
	if errIter, ab = guardErr(func() error {
		return db.IterateDocs(cq, func(d *document.Document) error { iter = append(iter, d); return nil })
	}); ab != "" {
		return &sm.Fail{Property: "C20", Clause: "no-panic-no-hang", Detail: "IterateDocs: " + ab}
	}
	if (errAll != nil) != (errIter != nil) {
		return bad("error-agreement", "FindAll err=%v IterateDocs err=%v", errAll, errIter)
	}
	if (errAll != nil) != (errCnt != nil) || (errAll != nil) != (errEx != nil) || (errAll != nil) != (errFirst != nil) || (errAll != nil) != (errEach != nil) {
		return bad("error-agreement", "FindAll err=%v Count err=%v Exists err=%v FindFirst err=%v ForEach err=%v", errAll, errCnt, errEx, errFirst, errEach)
	}
	if errAll != nil {
		return nil
	}
	_, limit := model.Window(op.Q)
	opts := model.NormSort(op.Q)
	allDocs := run.FromDocuments(all)
	// the property states identity with FindAll on the same state ("the first element of
	// FindAll(q)", "exactly the FindAll(q) sequence"), also among documents with equal sort keys
	_ = opts
	sameDoc := func(a, b cs.Doc) bool {
		return cs.StrictEqual(map[string]interface{}(a), map[string]interface{}(b))
	}
	if cnt != len(all) {
		return bad("count", "Count = %d but FindAll returns %d documents", cnt, len(all))
	}
	if limit != 0 {
		if ex != (len(all) > 0) {
			return bad("exists", "Exists = %v but FindAll returns %d documents", ex, len(all))
		}
		if (first != nil) != (len(all) > 0) {
			return bad("findfirst", "FindFirst nil=%v but FindAll returns %d documents", first == nil, len(all))
		}
		if first != nil && !sameDoc(run.FromDocument(first), allDocs[0]) {
			return bad("findfirst", "FindFirst = %s, first element of FindAll = %s", cs.Show(run.FromDocument(first)), cs.Show(allDocs[0]))
		}
	}
	eachDocs := run.FromDocuments(each)
	if len(eachDocs) != len(allDocs) {
		return bad("foreach", "ForEach visited %d documents, FindAll returns %d", len(eachDocs), len(allDocs))
	}
	for i := range eachDocs {
		if !sameDoc(eachDocs[i], allDocs[i]) {
			return bad("foreach", "ForEach position %d = %s, FindAll position %d = %s", i, cs.Show(eachDocs[i]), i, cs.Show(allDocs[i]))
		}
	}
	// IterateDocs, the exported engine under ForEach/Count, visits the same sequence
	iterDocs := run.FromDocuments(iter)
	if len(iterDocs) != len(allDocs) {
		return bad("foreach", "IterateDocs visited %d documents, FindAll returns %d", len(iterDocs), len(allDocs))
	}
	for i := range iterDocs {
		if !sameDoc(iterDocs[i], allDocs[i]) {
			return bad("foreach", "IterateDocs position %d = %s, FindAll position %d = %s", i, cs.Show(iterDocs[i]), i, cs.Show(allDocs[i]))
		}
	}
	// early stop at k (a pure function of the case)
	if len(all) > 0 {
		k := 1 + int(cs.Hash(op.Q)%3)
		if k > len(all) {
			k = len(all)
		}
		calls := 0
		var readsAtStop, readsAfter int64
		reads := func() int64 { c := s.H.Deco.Counts; return c[run.KItem] + c[run.KGet] }
		if _, ab = guardErr(func() error {
			return db.ForEach(cq, func(d *document.Document) bool {
				calls++
				if calls >= k {
					readsAtStop = reads()
					return false
				}
				return true
			})
		}); ab != "" {
			return &sm.Fail{Property: "C20", Clause: "no-panic-no-hang", Detail: "ForEach: " + ab}
		}
		readsAfter = reads()
		if calls != k {
			return bad("foreach-stop", "consumer returned false at call %d but was invoked %d times (sequence length %d)", k, calls, len(all))
		}
		if k < len(all) && readsAfter != readsAtStop {
			return bad("foreach-stop", "%d store reads were made after the consumer returned false at call %d", readsAfter-readsAtStop, k)
		}
	}
	// builder methods must not alter the receiver
	crit := cq.Criteria()
	_ = cq.Skip(3)
	_ = cq.Skip(-1)
	_ = cq.Limit(2)
	_ = cq.Sort(query.SortOption{Field: "zz", Direction: -1})
	_ = cq.Sort()
	_ = cq.Where(query.Field("zz").Eq(1))
	_ = cq.MatchFunc(func(*document.Document) bool { return true })
	if crit != nil {
		_ = crit.Not()
		_ = crit.And(query.Field("zz").Eq(1))
		_ = crit.Or(query.Field("zz").Eq(1))
	}
	if d := run.QueryDigest(cq); d != digest0 {
		return bad("query-immutable", "query object changed:\n before %s\n after  %s", digest0, d)
	}
	after, err := run.Dump(s.H.Raw)
	if err != nil {
		return bad("harness", "dump failed: %v", err)
	}
	if len(before) != len(after) {
		return bad("reads-mutate", "raw store has %d keys before and %d after the read calls", len(before), len(after))
	}
	for i := range before {
		if !bytes.Equal(before[i].Key, after[i].Key) || !bytes.Equal(before[i].Value, after[i].Value) {
			return bad("reads-mutate", "raw store differs at key %q after the read calls", before[i].Key)
		}
	}
	return nil
}

func c09Session(backend string) (*sm.Session, error) {
	s, err := sm.NewSession("C09", "c09", backend)
	if err != nil {
		return nil, err
	}
	s.Hooks = []sm.Hook{derivedHook}
	return s, nil
}

func init() { registerSM("C09", "c09", c09Session) }

func TestC09(t *testing.T) {
	t.Run("histories", testC09Histories)
	t.Run("concurrent", func(t *testing.T) {
		// reads racing with index creation/drop and writes: every FindAll/Count/FindById must
		// still be the answer of some state between its call and its return
		col := collector("C09", ruleC09)
		check(t, "C09", cases(120, 3000), 0, func(rt *rapid.T) {
			var h *c07History
			var verdict string
			if rapid.Bool().Draw(rt, "index-flip") {
				h, verdict = runConcurrent(rt, "C09", genIndexFlipProgram(rt))
			} else {
				h, verdict = concurrentCase(rt, "C09", []string{"find", "find", "find", "count", "count", "findbyid", "createindex", "dropindex", "dropindex", "insert", "deletebyid"})
			}
			col.Case(overlapWrite(h), hashOf(h.Setup, len(h.Ops), h.Ops[0].Op), func() interface{} {
				return map[string]interface{}{"mode": "concurrent", "backend": h.Backend, "operations": len(h.Ops), "verdict": verdict}
			}, "concurrent", "verdict:"+verdict)
		})
	})
}

func testC09Histories(t *testing.T) {
	(&smCheck{property: "C09", kind: "c09", rule: ruleC09, quick: 3500, thorough: 150000, stepsQ: 20, stepsT: 30,
		backends: []string{run.Bbolt, run.Bbolt, run.BadgerMem},
		profile:  func(rt *rapid.T) *sm.Profile { return c09Profile() },
		session:  c09Session,
		before: func(rt *rapid.T, s *sm.Session, p *sm.Profile) {
			// a third of the histories start with 13-40 documents over a tiny value domain in a second
			// collection: many ties on every combination of sort fields (FindFirst must still be the first
			// element of FindAll, ForEach the same sequence), and more than a dozen results
			if rapid.IntRange(0, 2).Draw(rt, "many-ties") != 0 {
				return
			}
			n := rapid.IntRange(13, 40).Draw(rt, "nties")
			docs := make([]cs.Doc, n)
			for i := range docs {
				d := cs.Doc{"_id": gen.Id(100 + i), "u": int64(5000 + i)}
				if v := rapid.IntRange(0, 2).Draw(rt, "tx"); v < 2 {
					d["x"] = int64(v)
				}
				if v := rapid.IntRange(0, 2).Draw(rt, "ty"); v < 2 {
					d["y"] = []interface{}{"a", int64(1)}[v]
				}
				docs[i] = d
			}
			for _, op := range []cs.Op{{Kind: "createcoll", Coll: "B"}, {Kind: "insert", Coll: "B", Docs: docs}} {
				if f := s.Do(op); f != nil {
					violate(rt, "C09", "c09", s.Program(f), f)
				}
			}
			if rapid.Bool().Draw(rt, "ties-index") {
				s.Do(cs.Op{Kind: "createindex", Coll: "B", Field: rapid.SampledFrom([]string{"x", "y"}).Draw(rt, "ties-ix")})
			}
		},
		classify: func(s *sm.Session, p *sm.Profile, op cs.Op) (bool, []string) {
			if op.Kind != "find" {
				return false, []string{"write-or-point-read"}
			}
			c := s.M.Colls[op.Q.Coll]
			if c == nil {
				return false, []string{"missing-collection"}
			}
			skip, limit := model.Window(op.Q)
			n := model.WindowLen(len(model.Matching(c.Docs, op.Q.Crit)), skip, limit)
			cl := []string{}
			if op.Q.Crit == nil {
				cl = append(cl, "no-criteria(counter shortcut)")
				if s.Facts["absent-id-delete"] > 0 {
					cl = append(cl, "counter-shortcut-after-absent-id-delete")
				}
			}
			if op.Q.SortSet {
				cl = append(cl, "sorted")
				if n > 1 {
					cl = append(cl, "sorted-early-stop")
				}
			}
			if len(c.Indexes) > 0 {
				cl = append(cl, "index-present")
			}
			if s.Facts["failed-writes"] > 0 {
				cl = append(cl, "after-failed-write")
			}
			nt := n > 0 && (op.Q.Crit != nil || op.Q.Skip != nil || op.Q.Limit != nil)
			return nt, cl
		}}).run(t)
}
