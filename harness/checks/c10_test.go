package checks

import (
	"bytes"
	"encoding/json"
	"fmt"
	"math"
	"strings"
	"sync"
	"testing"
	"time"

	"github.com/ostafen/clover/v2/document"
	"github.com/ostafen/clover/v2/query"
	"pgregory.net/rapid"

	"verif/harness/cs"
	"verif/harness/ev"
	"verif/harness/gen"
	"verif/harness/model"
	"verif/harness/run"
	"verif/harness/sm"
)

const ruleC10 = "triples (a, b, c) of values drawn from boundary-rich pools (wide regime: integers of any magnitude incl. int64/uint64 extremes, no floats; mixed regime: |n| <= 2^53 with floats incl. -0.0, +-Inf, +-MaxFloat64, denormals), strings with 0x00/0xFF bytes and prefix relations, nested arrays/objects, empty containers, times 1678..2262 and far beyond (year 1, 1066, 1600, 2300, 9999) in several zones; b and c are frequently derived from a (same number in another kind, neighbours, prefixes/extensions, same instant in another zone). Oracles: (1) sign of clover's comparison - read off Field(f).Gt/Lt/Eq/GtEq/LtEq(b).Satisfy({f:a}) - equals the reference comparator; (2) reflexive, sign-antisymmetric, transitive on the triple; (3) for numbers within 2^53 and times from 1970: sign(bytes.Compare(K(a),K(b))) = sign(cmp(a,b)) with K the key bytes index.Add writes (recording transaction), equal values <=> identical keys. An evaluation is one triple; non-trivial when two of the values are distinct values of the same type rank, or a numeric cross-kind pair, or the triple spans >= 2 ranks; distinct = distinct triples. Two further parts: the same comparisons issued by 2-8 goroutines at once must give the same signs; and index range scans over real transactions, with collection/field names of 1-12 / 1-72 bytes, must deliver exactly the entries the comparison puts inside the range."

type c10Case struct {
	A, B, C cs.V
	Keys    bool // key-order clause applies (mixed regime, times from 1970)
}

func cloverSign(a, b interface{}) (int, string) {
	doc := document.NewDocument()
	doc.Set("f", cs.Clone(a))
	f := query.Field("f")
	bb := func() interface{} { return cs.Clone(b) }
	gt := f.Gt(bb()).Satisfy(doc)
	lt := f.Lt(bb()).Satisfy(doc)
	eq := f.Eq(bb()).Satisfy(doc)
	ge := f.GtEq(bb()).Satisfy(doc)
	le := f.LtEq(bb()).Satisfy(doc)
	n := 0
	for _, x := range []bool{gt, lt, eq} {
		if x {
			n++
		}
	}
	if n != 1 || ge != (gt || eq) || le != (lt || eq) {
		return 0, fmt.Sprintf("inconsistent operators for (%s, %s): gt=%v lt=%v eq=%v gte=%v lte=%v", cs.Show(a), cs.Show(b), gt, lt, eq, ge, le)
	}
	switch {
	case gt:
		return 1, ""
	case lt:
		return -1, ""
	}
	return 0, ""
}

func sgn(i int) int {
	switch {
	case i < 0:
		return -1
	case i > 0:
		return 1
	}
	return 0
}

const c10DocId = "00000000-0000-4000-8000-000000000000"

func keyOf(v interface{}) ([]byte, error) {
	k, err := run.IndexKey("c", "f", c10DocId, cs.Clone(v))
	if err != nil {
		return nil, err
	}
	if !bytes.HasSuffix(k, []byte(c10DocId)) {
		return nil, fmt.Errorf("key %q does not end with the document id", k)
	}
	return k[:len(k)-len(c10DocId)], nil
}

func runC10(c *c10Case) *sm.Fail {
	out := run.Guard(func(o *cs.Outcome) {
		if msg := c10Body(c); msg != "" {
			o.Err = "violation: " + msg
		}
	})
	if out.Err == "" {
		return nil
	}
	if strings.HasPrefix(out.Err, "violation: ") {
		return &sm.Fail{Property: "C10", Clause: "order", Detail: strings.TrimPrefix(out.Err, "violation: ")}
	}
	return &sm.Fail{Property: "C20", Clause: "no-panic-no-hang", Detail: "comparison/key encoding: " + out.Err}
}

func c10Body(c *c10Case) string {
	vals := []interface{}{c.A.X, c.B.X, c.C.X}
	var s [3][3]int
	for i := range vals {
		for j := range vals {
			got, msg := cloverSign(vals[i], vals[j])
			if msg != "" {
				return msg
			}
			s[i][j] = got
			if want := model.Cmp(vals[i], vals[j]); got != want {
				return fmt.Sprintf("compare(%s, %s): clover sign %d, reference %d", cs.Show(vals[i]), cs.Show(vals[j]), got, want)
			}
		}
	}
	for i := range vals {
		if s[i][i] != 0 {
			return fmt.Sprintf("not reflexive on %s", cs.Show(vals[i]))
		}
		for j := range vals {
			if s[i][j] != -s[j][i] {
				return fmt.Sprintf("not antisymmetric on (%s, %s): %d vs %d", cs.Show(vals[i]), cs.Show(vals[j]), s[i][j], s[j][i])
			}
			for k := range vals {
				if s[i][j] <= 0 && s[j][k] <= 0 && s[i][k] > 0 {
					return fmt.Sprintf("not transitive on (%s, %s, %s)", cs.Show(vals[i]), cs.Show(vals[j]), cs.Show(vals[k]))
				}
			}
		}
	}
	if c.Keys {
		keys := make([][]byte, 3)
		for i, v := range vals {
			k, err := keyOf(v)
			if err != nil {
				return fmt.Sprintf("no index key for %s: %v", cs.Show(v), err)
			}
			keys[i] = k
		}
		for i := range vals {
			for j := range vals {
				if kc := sgn(bytes.Compare(keys[i], keys[j])); kc != s[i][j] {
					return fmt.Sprintf("key order disagrees with comparison for (%s, %s): keys %q vs %q compare %d, values compare %d",
						cs.Show(vals[i]), cs.Show(vals[j]), keys[i], keys[j], kc, s[i][j])
				}
			}
		}
	}
	return ""
}

func init() {
	replayers["c10conc"] = func(raw json.RawMessage) *sm.Fail {
		var c struct {
			Pairs   [][2]cs.V `json:"pairs"`
			Workers int       `json:"workers"`
		}
		if err := json.Unmarshal(raw, &c); err != nil {
			return &sm.Fail{Property: "C10", Clause: "replay", Detail: err.Error()}
		}
		for i := 0; i < 20; i++ {
			if f := concurrentCompare(c.Pairs, c.Workers); f != nil {
				return f
			}
		}
		return nil
	}
	replayers["c10"] = func(raw json.RawMessage) *sm.Fail {
		var c c10Case
		if err := json.Unmarshal(raw, &c); err != nil {
			return &sm.Fail{Property: "C10", Clause: "replay", Detail: err.Error()}
		}
		return runC10(&c)
	}
}

func noDollar(v interface{}) interface{} {
	if s, ok := v.(string); ok && strings.HasPrefix(s, "$") {
		return "S" + s
	}
	return v
}

// keyDomain: numbers within 2^53 (already the mixed regime), times from 1970 on, finite
// or infinite floats; applies recursively.
func keyDomain(v interface{}) bool {
	switch x := v.(type) {
	case time.Time:
		return !x.Before(time.Unix(0, 0)) && x.Before(time.Date(2262, 1, 1, 0, 0, 0, 0, time.UTC))
	case int64:
		return x >= -(1<<53) && x <= 1<<53
	case uint64:
		return x <= 1<<53
	case float64:
		return !math.IsNaN(x)
	case []interface{}:
		for _, e := range x {
			if !keyDomain(e) {
				return false
			}
		}
	case map[string]interface{}:
		for _, e := range x {
			if !keyDomain(e) {
				return false
			}
		}
	}
	return true
}

// concurrentCompare: the comparison must give the same answers when several goroutines
// compare at the same time (no shared scratch state).
func concurrentCompare(pairs [][2]cs.V, workers int) *sm.Fail {
	want := make([]int, len(pairs))
	for i, p := range pairs {
		want[i] = model.Cmp(p[0].X, p[1].X)
	}
	fails := make([]*sm.Fail, workers)
	var wg sync.WaitGroup
	for g := 0; g < workers; g++ {
		wg.Add(1)
		go func(g int) {
			defer wg.Done()
			out := run.Guard(func(o *cs.Outcome) {
				for round := 0; round < 30 && fails[g] == nil; round++ {
					for i, p := range pairs {
						got, msg := cloverSign(p[0].X, p[1].X)
						if msg != "" || got != want[i] {
							fails[g] = &sm.Fail{Property: "C10", Clause: "concurrent-compare", Detail: fmt.Sprintf("with %d goroutines comparing at once: compare(%s, %s) = %d %s, reference %d", workers, cs.Show(p[0].X), cs.Show(p[1].X), got, msg, want[i])}
							return
						}
					}
				}
			})
			if out.Err != "" {
				fails[g] = &sm.Fail{Property: "C20", Clause: "no-panic-no-hang", Detail: "concurrent comparison: " + out.Err}
			}
		}(g)
	}
	wg.Wait()
	for _, f := range fails {
		if f != nil {
			return f
		}
	}
	return nil
}

func TestC10(t *testing.T) {
	t.Run("triples", testC10Triples)
	t.Run("concurrent", func(t *testing.T) {
		col := collector("C10", ruleC10)
		cfg := gen.ValCfg{NonUTF8: true, MaxDepth: 1}
		check(t, "C10", cases(150, 4000), 0, func(rt *rapid.T) {
			n := rapid.IntRange(4, 24).Draw(rt, "npairs")
			pairs := make([][2]cs.V, n)
			for i := range pairs {
				a := noDollar(gen.Value(cfg, 1).Draw(rt, "a"))
				b := noDollar(gen.Near(cfg, a).Draw(rt, "b"))
				pairs[i] = [2]cs.V{{X: a}, {X: b}}
			}
			w := rapid.IntRange(2, 8).Draw(rt, "workers")
			if f := concurrentCompare(pairs, w); f != nil {
				violate(rt, "C10", "c10conc", map[string]interface{}{"pairs": pairs, "workers": w}, f)
			}
			col.Case(true, hashOf(pairs, w), func() interface{} {
				return map[string]interface{}{"mode": "concurrent comparisons", "pairs": n, "workers": w}
			}, "concurrent")
		})
	})
	t.Run("scan-agrees", func(t *testing.T) {
		// "an index range scan and a comparison-based filter always agree": range scans over real
		// transactions with index names of every length (the C17 case runner with generated names)
		col := collector("C10", ruleC10)
		vcfg := gen.ValCfg{MaxDepth: 1, NonUTF8: true}
		check(t, "C10", cases(400, 10000), 0, func(rt *rapid.T) {
			c := &c17Case{Backend: rapid.SampledFrom([]string{run.Bbolt, run.BadgerMem}).Draw(rt, "backend"),
				Coll: strings.Repeat("k", rapid.IntRange(1, 12).Draw(rt, "colllen")), Field: strings.Repeat("f", rapid.IntRange(1, 72).Draw(rt, "fieldlen"))}
			npal := rapid.IntRange(2, 6).Draw(rt, "npalette")
			palette := make([]interface{}, npal)
			for i := range palette {
				palette[i] = noDollar(gen.Value(vcfg, 1).Draw(rt, "pal"))
			}
			for i := rapid.IntRange(2, 12).Draw(rt, "nentries"); i > 0; i-- {
				c.Values = append(c.Values, cs.V{X: cs.Clone(rapid.SampledFrom(palette).Draw(rt, "val"))})
			}
			for i := 0; i < 3; i++ {
				r := c17Range{Start: cs.V{X: cs.Clone(rapid.SampledFrom(palette).Draw(rt, "start"))}, End: cs.V{X: cs.Clone(rapid.SampledFrom(palette).Draw(rt, "end"))},
					StartInc: rapid.Bool().Draw(rt, "si"), EndInc: rapid.Bool().Draw(rt, "ei")}
				if r.Start.X == nil {
					r.StartInc = false
				}
				if r.End.X == nil {
					r.EndInc = false
				}
				if r.Start.X == nil && r.End.X == nil {
					r.StartInc, r.EndInc = true, true
				}
				c.Ranges = append(c.Ranges, r)
				c.Reverse = append(c.Reverse, rapid.Bool().Draw(rt, "reverse"))
				c.StopAt = append(c.StopAt, 0)
			}
			if f := runC17(c); f != nil {
				if f.Property == "C17" {
					f.Property = "C10"
				}
				violate(rt, "C10", "c17", c, f)
			}
			col.Case(true, hashOf(c), func() interface{} {
				return map[string]interface{}{"mode": "range scan vs comparison", "field_name_len": len(c.Field), "entries": len(c.Values)}
			}, "scan-agrees")
		})
	})
}

func testC10Triples(t *testing.T) {
	check(t, "C10", cases(120000, 8000000), 0, propC10Triples(collector("C10", ruleC10)))
}

func propC10Triples(col *ev.Collector) func(rt *rapid.T) {
	return func(rt *rapid.T) {
		wide := rapid.IntRange(0, 2).Draw(rt, "wide") == 0
		cfg := gen.ValCfg{Wide: wide, NonUTF8: true, Inf: !wide, TimeWide: true, TimeFar: true, MaxDepth: 2, LongStr: true}
		depth := rapid.SampledFrom([]int{0, 0, 1, 2}).Draw(rt, "depth")
		a := gen.Value(cfg, depth).Draw(rt, "a")
		var b, c interface{}
		if rapid.IntRange(0, 2).Draw(rt, "bnear") != 0 {
			b = gen.Near(cfg, a).Draw(rt, "b")
		} else {
			b = gen.Value(cfg, depth).Draw(rt, "b")
		}
		switch rapid.IntRange(0, 3).Draw(rt, "cnear") {
		case 0:
			c = gen.Near(cfg, a).Draw(rt, "c")
		case 1:
			c = gen.Near(cfg, b).Draw(rt, "c")
		default:
			c = gen.Value(cfg, depth).Draw(rt, "c")
		}
		a, b, c = noDollar(a), noDollar(b), noDollar(c)
		cse := &c10Case{A: cs.V{X: a}, B: cs.V{X: b}, C: cs.V{X: c}}
		cse.Keys = !wide && keyDomain(a) && keyDomain(b) && keyDomain(c)
		if f := runC10(cse); f != nil {
			violate(rt, "C10", "c10", cse, f)
		}
		ranks := map[int]bool{model.Rank(a): true, model.Rank(b): true, model.Rank(c): true}
		nt := len(ranks) >= 2
		cl := []string{fmt.Sprintf("wide:%v", wide), fmt.Sprintf("keys:%v", cse.Keys), fmt.Sprintf("ranks:%d", len(ranks))}
		pairs := [][2]interface{}{{a, b}, {a, c}, {b, c}}
		for _, p := range pairs {
			if model.Rank(p[0]) == model.Rank(p[1]) {
				if model.Cmp(p[0], p[1]) != 0 {
					nt = true
					cl = append(cl, fmt.Sprintf("same-rank-distinct:%d", model.Rank(p[0])))
				} else if !cs.StrictEqual(p[0], p[1]) {
					cl = append(cl, "equal-but-different-representation")
					nt = true
				}
				if model.Rank(p[0]) == 1 && fmt.Sprintf("%T", p[0]) != fmt.Sprintf("%T", p[1]) {
					nt = true
					cl = append(cl, "numeric-cross-kind")
				}
			}
		}
		col.Case(nt, hashOf(cse), func() interface{} {
			return map[string]string{"a": cs.Show(a), "b": cs.Show(b), "c": cs.Show(c)}
		}, cl...)
	}
}
