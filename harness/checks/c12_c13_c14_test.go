package checks

import (
	"strings"
	"testing"

	"pgregory.net/rapid"

	"verif/harness/cs"
	"verif/harness/gen"
	"verif/harness/model"
	"verif/harness/run"
	"verif/harness/sm"
)

// ---------------------------------------------------------------------------------- C12

const ruleC12 = "model-based state machine with an id-centred mix: generated and supplied ids, duplicates inside a batch (also at position 1000+ of batches of 1001-2500 documents) and against stored ids, malformed ids (empty, short, long, non-hex, non-string), upper-case spellings, the same ids in two collections, Save with and without id, ReplaceById with a mismatching id, UpdateById/Update/UpdateFunc that set _id to a free, taken or malformed value. Oracle: model (fresh valid UUID for a missing id, supplied id kept, ErrDuplicateKey / error and no change), and after every step for every id ever used FindById(c,id) is nil or a document whose _id is id, scans and FindById agree, no unaddressed document changed (an update that rewrites _id may fail or re-key: validity predicate, then resync). An evaluation is one step; non-trivial when the step involves a colliding, malformed, generated or rewritten id (including the upper-case spelling of the document's own id); distinct = distinct (operation, model state). A second part races 2-5 concurrent Inserts (single documents and batches) that carry the same _id, schedule perturbed at every store call: at most one may succeed, the others fail with ErrDuplicateKey (or a store conflict) leaving nothing behind, and documents, counter and index entries are consistent afterwards."

func c12Profile() *sm.Profile {
	return &sm.Profile{
		Name:        "c12",
		FaultRate:   12,
		Colls:       []string{"A", "B", "I1", "I2"}, // I1, I2: mostly free, targets of imports
		IndexFields: []string{"x", "_id", "u"},
		Doc:         gen.DocCfg{Val: gen.ValCfg{MaxDepth: 0}, PAbsent: 3, Fields: []string{"x", "y", "u"}},
		IdPool:      16,
		MaxDocs:     8,
		GenIds:      true,
		BadIds:      true,
		IdRewrite:   true,
		Crit:        gen.CritEnv{Val: gen.ValCfg{MaxDepth: 0}, MaxDepth: 2, Fields: []string{"x", "y", "u", "_id"}},
		Weights: []sm.W{{Kind: "biginsert", Weight: 1}, {Kind: "createcoll", Weight: 4}, {Kind: "insert", Weight: 16}, {Kind: "insertone", Weight: 6}, {Kind: "save", Weight: 10},
			{Kind: "replace", Weight: 8}, {Kind: "updatebyid", Weight: 12}, {Kind: "update", Weight: 8}, {Kind: "updatefunc", Weight: 8},
			{Kind: "deletebyid", Weight: 4}, {Kind: "createindex", Weight: 4}, {Kind: "dropindex", Weight: 1}, {Kind: "findbyid", Weight: 6},
			// the same id rules hold for documents arriving through an import file
			{Kind: "import", Weight: 7}, {Kind: "dropcoll", Weight: 2}},
	}
}

func c12Ids(s *sm.Session) []string {
	ids := []string{}
	for i := 0; i < 12; i++ {
		ids = append(ids, gen.Id(i))
	}
	for i := 10; i < 16; i++ {
		ids = append(ids, gen.UpperId(i))
	}
	for _, m := range gen.MalformedIds {
		if sv, ok := m.(string); ok {
			ids = append(ids, sv)
		}
	}
	ids = append(ids, "")
	return ids
}

func c12Session(backend string) (*sm.Session, error) {
	s, err := sm.NewSession("C12", "c12", backend)
	if err != nil {
		return nil, err
	}
	s.M.AllowIdRewrite = true
	s.Hooks = []sm.Hook{idHook(c12Ids)}
	return s, nil
}

func init() { registerSM("C12", "c12", c12Session) }

func opTouchesIds(op cs.Op) (bool, []string) {
	var cl []string
	for _, d := range op.Docs {
		v, has := d["_id"]
		switch x := v.(type) {
		case string:
			if !has || x == "" {
				cl = append(cl, "id:generated")
			} else if strings.HasPrefix(x, "@sym:") {
				cl = append(cl, "id:existing-generated")
			} else if !strings.HasPrefix(x, "0000") || len(x) != 36 {
				cl = append(cl, "id:malformed")
			} else if strings.ToUpper(x) == x && strings.ToLower(x) != x {
				cl = append(cl, "id:upper")
			}
		case nil:
			if !has {
				cl = append(cl, "id:generated")
			} else {
				cl = append(cl, "id:malformed")
			}
		default:
			cl = append(cl, "id:malformed")
		}
	}
	if op.Upd != nil && (op.Upd.Field == "_id") {
		cl = append(cl, "id:rewrite")
	}
	if _, ok := op.UpdMap["_id"]; ok {
		cl = append(cl, "id:rewrite")
	}
	return len(cl) > 0, cl
}

func TestC12(t *testing.T) {
	t.Run("race", func(t *testing.T) {
		col := collector("C12", ruleC12)
		check(t, "C12", cases(250, 6000), 0, func(rt *rapid.T) {
			c := &c12RaceCase{Backend: rapid.SampledFrom(raceBackends).Draw(rt, "backend"), Index: rapid.Bool().Draw(rt, "index")}
			for i := rapid.IntRange(2, 5).Draw(rt, "clients"); i > 0; i-- {
				b := []int{}
				for j := rapid.IntRange(1, 3).Draw(rt, "batchlen"); j > 0; j-- {
					b = append(b, rapid.SampledFrom([]int{0, 0, 1, 2, 3}).Draw(rt, "idk"))
				}
				// no duplicate inside one batch (that is the sequential check's business)
				seen := map[int]bool{}
				nb := []int{}
				for _, k := range b {
					if !seen[k] {
						seen[k] = true
						nb = append(nb, k)
					}
				}
				c.Batches = append(c.Batches, nb)
			}
			c.Bits = rapid.SliceOfN(rapid.Byte(), 8, 48).Draw(rt, "schedule-bits")
			if f := runC12Race(c); f != nil {
				violate(rt, "C12", "c12race", c, f)
			}
			col.Case(true, hashOf(c), func() interface{} { return c }, "id-race", "backend:"+c.Backend)
		})
	})
	t.Run("histories", testC12Histories)
}

func testC12Histories(t *testing.T) {
	(&smCheck{property: "C12", kind: "c12", rule: ruleC12, quick: 2500, thorough: 40000, stepsQ: 20, stepsT: 30,
		backends: []string{run.Bbolt, run.Bbolt, run.BadgerMem},
		profile:  func(rt *rapid.T) *sm.Profile { return c12Profile() },
		session:  c12Session,
		classify: func(s *sm.Session, p *sm.Profile, op cs.Op) (bool, []string) {
			nt, cl := opTouchesIds(op)
			// duplicates: an insert whose outcome was ErrDuplicateKey is recognised by the failed-writes fact
			if s.Resynced {
				cl = append(cl, "resynced")
			}
			return nt, cl
		}}).run(t)
}

// ---------------------------------------------------------------------------------- C13

const ruleC13 = "model-based state machine over a name alphabet with prefix-related, dotted, colon, unicode, empty and very long (520 / 801 bytes) collection names, 2-5 live collections sharing the same ids, all operation kinds including indexes and drops. After every step: ListCollections (as a set) and HasCollection for every name of the alphabet equal the model, sentinel errors are exact, and every collection - in particular every one other than the operated one - has exactly the model's documents, index list and Count. An evaluation is one step; non-trivial when the operated collection has a live sibling whose name is prefix-related to it or that shares an id with it; distinct = distinct (operation, model state). A second part races 2-5 concurrent creators of one name (CreateCollection, CreateCollectionByQuery, ImportCollection; schedule perturbed at every store call): at most one may succeed, the others fail with ErrCollectionExist (or a store conflict) without side effects, and the full state (contents, counters, raw key audit) equals the winner's; every race counts as one non-trivial evaluation."

var c13Names = []string{"A", "B", "a", "ab", "a.b", "a:b", "c", "coll", "é", "", "a b", "c:a", "c%d", "100%", strings.Repeat("L", 520), strings.Repeat("L", 800) + "x",
	// names that repeat the literal prefixes of clover's own key layout
	"coll:a", "coll:", "coll:coll:a", "i:x"}

func c13Profile() *sm.Profile {
	return &sm.Profile{
		Name:      "c13",
		FaultRate: 12,
		Colls:     c13Names,
		// "b.x" next to "x": the pair (collection "a", field "b.x") and (collection "a.b", field "x")
		// spell the same text when name and field are joined by a dot
		IndexFields: []string{"x", "xy", "y", "_id", "b.x"},
		Doc:         gen.DocCfg{Val: gen.ValCfg{MaxDepth: 1}, PAbsent: 3, Fields: []string{"x", "xy", "y", "u"}},
		IdPool:      6, // ids are shared between collections on purpose
		MaxDocs:     6,
		Crit:        gen.CritEnv{Val: gen.ValCfg{MaxDepth: 0}, MaxDepth: 2, Fields: []string{"x", "xy", "y", "u", "_id"}},
		Weights: []sm.W{{Kind: "createcoll", Weight: 14}, {Kind: "dropcoll", Weight: 8}, {Kind: "insert", Weight: 16}, {Kind: "save", Weight: 3},
			{Kind: "replace", Weight: 4}, {Kind: "updatebyid", Weight: 5}, {Kind: "update", Weight: 5}, {Kind: "updatefunc", Weight: 4},
			{Kind: "delete", Weight: 5}, {Kind: "deletebyid", Weight: 5}, {Kind: "createindex", Weight: 7}, {Kind: "dropindex", Weight: 4},
			{Kind: "find", Weight: 4}, {Kind: "count", Weight: 2}, {Kind: "findbyid", Weight: 2}, {Kind: "hasindex", Weight: 2},
			{Kind: "listindexes", Weight: 2}, {Kind: "createbyquery", Weight: 3}, {Kind: "exists", Weight: 1}, {Kind: "findfirst", Weight: 1}, {Kind: "foreach", Weight: 1}},
	}
}

func c13Session(backend string) (*sm.Session, error) {
	s, err := sm.NewSession("C13", "c13", backend)
	if err != nil {
		return nil, err
	}
	s.Hooks = []sm.Hook{catalogHook(c13Names)}
	return s, nil
}

func init() { registerSM("C13", "c13", c13Session) }

func related(a, b string) bool {
	return a != b && (strings.HasPrefix(a, b) || strings.HasPrefix(b, a))
}

func TestC13(t *testing.T) {
	t.Run("race", func(t *testing.T) {
		col := collector("C13", ruleC13)
		check(t, "C13", cases(250, 6000), 0, func(rt *rapid.T) {
			c := &c13RaceCase{Backend: rapid.SampledFrom(raceBackends).Draw(rt, "backend")}
			n := rapid.IntRange(1, 6).Draw(rt, "ndocs")
			for i := 0; i < n; i++ {
				c.Docs = append(c.Docs, cs.Doc{"_id": gen.Id(i), "x": int64(rapid.IntRange(0, 3).Draw(rt, "x")), "u": int64(i)})
			}
			if rapid.Bool().Draw(rt, "indexed") {
				c.Index = "x"
			}
			for i := rapid.IntRange(2, 5).Draw(rt, "nracers"); i > 0; i-- {
				c.Racers = append(c.Racers, rapid.SampledFrom([]string{"createcoll", "createbyquery", "createbyquery", "import", "import"}).Draw(rt, "racer"))
			}
			for i := rapid.IntRange(0, 4).Draw(rt, "nfile"); i > 0; i-- {
				c.FileIds = append(c.FileIds, len(c.FileIds))
			}
			c.Bits = rapid.SliceOfN(rapid.Byte(), 8, 48).Draw(rt, "schedule-bits")
			if f := runC13Race(c); f != nil {
				violate(rt, "C13", "c13race", c, f)
			}
			col.Case(true, hashOf(c), func() interface{} { return c }, "catalog-race", "backend:"+c.Backend)
		})
	})
	t.Run("crossing", func(t *testing.T) {
		// two collections whose names and index fields spell the same text when joined by a
		// separator (collection p, field q<sep>r  /  collection p<sep>q, field r), sharing document
		// ids: writes, index drops and ordered scans on one must never show in the other
		col := collector("C13", ruleC13)
		check(t, "C13", cases(300, 8000), 0, func(rt *rapid.T) {
			backend := rapid.SampledFrom([]string{run.Bbolt, run.Bbolt, run.BadgerMem}).Draw(rt, "backend")
			sep := rapid.SampledFrom([]string{".", ".", ":", "%", " ", "-", ""}).Draw(rt, "sep")
			word := rapid.SampledFrom([]string{"a", "b", "app", "users", "x", "i", "c"})
			pw, qw, rw := word.Draw(rt, "p"), word.Draw(rt, "q"), word.Draw(rt, "r")
			c1, f1, c2, f2 := pw, qw+sep+rw, pw+sep+qw, rw
			if c1 == c2 {
				c2 += "2"
			}
			s, err := c13Session(backend)
			if err != nil {
				rt.Fatalf("open: %v", err)
			}
			defer s.Close()
			do := func(op cs.Op) {
				if f := s.Do(op); f != nil {
					violate(rt, "C13", "c13", s.Program(f), f)
				}
			}
			mk := func(field string, i int, v interface{}) cs.Doc {
				d := cs.Doc{"_id": gen.Id(i), "u": int64(i)}
				model.SetPath(d, field, v)
				return d
			}
			n := rapid.IntRange(1, 5).Draw(rt, "ndocs")
			var d1, d2 []cs.Doc
			for i := 0; i < n; i++ {
				d1 = append(d1, mk(f1, i, int64(rapid.IntRange(0, 3).Draw(rt, "v1"))))
				d2 = append(d2, mk(f2, i, int64(10+rapid.IntRange(0, 3).Draw(rt, "v2"))))
			}
			scan := func() {
				do(cs.Op{Kind: "find", Q: &cs.Query{Coll: c1, SortSet: true, Sort: []cs.SortOpt{{Field: f1, Dir: 1}}}})
				do(cs.Op{Kind: "find", Q: &cs.Query{Coll: c2, SortSet: true, Sort: []cs.SortOpt{{Field: f2, Dir: -1}}}})
				a := cs.Lit(int64(0))
				do(cs.Op{Kind: "count", Q: &cs.Query{Coll: c1, Crit: &cs.Crit{Op: "gte", Field: f1, Arg: &a}}})
				do(cs.Op{Kind: "count", Q: &cs.Query{Coll: c2, Crit: &cs.Crit{Op: "gte", Field: f2, Arg: &a}}})
			}
			steps := []func(){
				func() { do(cs.Op{Kind: "createcoll", Coll: c1}) },
				func() { do(cs.Op{Kind: "createcoll", Coll: c2}) },
				func() { do(cs.Op{Kind: "insert", Coll: c1, Docs: d1}) },
				func() { do(cs.Op{Kind: "insert", Coll: c2, Docs: d2}) },
				func() { do(cs.Op{Kind: "createindex", Coll: c1, Field: f1}) },
				func() { do(cs.Op{Kind: "createindex", Coll: c2, Field: f2}) },
			}
			// collections first, the rest in a drawn order
			steps[0]()
			steps[1]()
			for _, i := range rapid.Permutation([]int{2, 3, 4, 5}).Draw(rt, "order") {
				steps[i]()
			}
			scan()
			do(cs.Op{Kind: "updatebyid", Coll: c1, Id: &cs.IdRef{Lit: gen.Id(0)}, Upd: &cs.Updater{Kind: "set", Field: f1, Value: cs.V{X: int64(7)}}})
			scan()
			if rapid.Bool().Draw(rt, "drop-first") {
				do(cs.Op{Kind: "dropindex", Coll: c1, Field: f1})
			} else {
				do(cs.Op{Kind: "dropindex", Coll: c2, Field: f2})
			}
			scan()
			do(cs.Op{Kind: "deletebyid", Coll: c2, Id: &cs.IdRef{Lit: gen.Id(0)}})
			scan()
			if rapid.Bool().Draw(rt, "drop-coll") {
				do(cs.Op{Kind: "dropcoll", Coll: c1})
				do(cs.Op{Kind: "find", Q: &cs.Query{Coll: c2, SortSet: true, Sort: []cs.SortOpt{{Field: f2, Dir: 1}}}})
			}
			do(cs.Op{Kind: "close"})
			col.Case(true, hashOf(s.Ops, backend), func() interface{} {
				return map[string]interface{}{"mode": "crossing names", "collections": []string{c1, c2}, "fields": []string{f1, f2}, "backend": backend}
			}, "crossing-names", "backend:"+backend, "sep:"+sep)
		})
	})
	t.Run("histories", testC13Histories)
}

func testC13Histories(t *testing.T) {
	(&smCheck{property: "C13", kind: "c13", rule: ruleC13, quick: 2000, thorough: 120000, stepsQ: 20, stepsT: 30,
		backends: []string{run.Bbolt, run.Bbolt, run.BadgerMem},
		profile: func(rt *rapid.T) *sm.Profile {
			// a history works on one or two groups of related names plus a few others, so that related
			// names are usually alive together
			p := c13Profile()
			groups := [][]string{{"a", "a.b", "ab", "a:b", "a b"}, {"A", "B"}, {"c", "c:a", "c%d", "coll"}, {"é", "", "100%"}, {c13Names[14], c13Names[15]}, {"coll", "coll:a", "coll:", "coll:coll:a", "a", "i:x"}}
			if rapid.IntRange(0, 3).Draw(rt, "all-names") != 0 {
				names := append([]string{}, groups[rapid.IntRange(0, len(groups)-1).Draw(rt, "group")]...)
				for i := rapid.IntRange(0, 3).Draw(rt, "extra-names"); i > 0; i-- {
					names = append(names, rapid.SampledFrom(c13Names).Draw(rt, "extra-name"))
				}
				seen := map[string]bool{}
				p.Colls = nil
				for _, n := range names {
					if !seen[n] {
						seen[n] = true
						p.Colls = append(p.Colls, n)
					}
				}
			}
			return p
		},
		session: c13Session,
		classify: func(s *sm.Session, p *sm.Profile, op cs.Op) (bool, []string) {
			target := op.Coll
			if op.Q != nil && op.Kind != "createbyquery" {
				target = op.Q.Coll
			}
			var cl []string
			nt := false
			tc := s.M.Colls[target]
			if s.Prev != nil && s.Prev.Colls[target] != nil {
				tc = s.Prev.Colls[target]
			}
			for _, n := range s.M.CollNames() {
				if n == target {
					continue
				}
				if related(n, target) {
					nt = true
					cl = append(cl, "prefix-related-sibling")
				}
				if tc != nil {
					for id := range s.M.Colls[n].Docs {
						if _, ok := tc.Docs[id]; ok {
							nt = true
							cl = append(cl, "shared-id-sibling")
							break
						}
					}
				}
			}
			if s.M.Colls[target] == nil {
				cl = append(cl, "missing-collection")
			}
			return nt, cl
		}}).run(t)
}

// ---------------------------------------------------------------------------------- C14

const ruleC14 = "model-based state machine on one or two collections over an index-field alphabet with prefix pairs (x/xy), dotted sub-paths (n/n.a/n.b) names containing '%' (p1, p%d, q%) and names differing only by a trailing blank or by case (x / 'x ' / X), CreateIndex/DropIndex/HasIndex/ListIndexes interleaved with writes. After every step ListIndexes and HasIndex for every field equal the model (sentinels exact, including on missing collections); after every catalog change every surviving index must answer an ascending and a descending ordered scan and range/equality queries around a stored value exactly like the model. An evaluation is one step; non-trivial when the step creates or drops an index while a sibling index with a prefix/dotted relation exists; distinct = distinct (operation, model state). A second part races concurrent CreateIndex / DropIndex of the same fields with writes and queries (schedule perturbed at every store call) and requires the history, including a sequential epilogue of ListIndexes and index-ordered scans, to be linearizable."

var c14Fields = []string{"x", "xy", "n", "n.a", "n.b", "y", "s", "_id", "p1", "p%d", "q%", "x ", "X"}

func c14Profile() *sm.Profile {
	return &sm.Profile{
		Name:          "c14",
		FaultRate:     12,
		UpdBelowIndex: true,
		Colls:         []string{"A", "AB", "zz"},
		IndexFields:   c14Fields,
		Doc:           gen.DocCfg{Val: gen.ValCfg{MaxDepth: 1}, PAbsent: 4, Fields: []string{"x", "xy", "n", "y", "s", "u", "p1", "p%d", "q%", "x ", "X"}},
		IdPool:        16,
		MaxDocs:       10,
		Crit:          gen.CritEnv{Val: gen.ValCfg{MaxDepth: 1}, MaxDepth: 2, Fields: []string{"x", "xy", "n", "n.a", "n.b", "y", "s", "_id", "p1", "p%d", "q%", "x ", "X"}},
		SortFields:    c14Fields,
		Weights: []sm.W{{Kind: "createcoll", Weight: 3}, {Kind: "dropcoll", Weight: 1}, {Kind: "insert", Weight: 12}, {Kind: "replace", Weight: 3},
			{Kind: "updatebyid", Weight: 6}, {Kind: "update", Weight: 4}, {Kind: "updatefunc", Weight: 4}, {Kind: "delete", Weight: 3},
			{Kind: "deletebyid", Weight: 4}, {Kind: "createindex", Weight: 18}, {Kind: "dropindex", Weight: 14}, {Kind: "hasindex", Weight: 4},
			{Kind: "listindexes", Weight: 4}, {Kind: "find", Weight: 10}},
	}
}

func c14Session(backend string) (*sm.Session, error) {
	s, err := sm.NewSession("C14", "c14", backend)
	if err != nil {
		return nil, err
	}
	s.Hooks = []sm.Hook{indexCatalogHook(c14Fields)}
	return s, nil
}

func init() { registerSM("C14", "c14", c14Session) }

func fieldRelated(a, b string) bool {
	return a != b && (strings.HasPrefix(a, b) || strings.HasPrefix(b, a))
}

func TestC14(t *testing.T) {
	t.Run("histories", testC14Histories)
	t.Run("concurrent", func(t *testing.T) {
		// the index catalog under concurrent CreateIndex / DropIndex of the same fields
		col := collector("C14", ruleC14)
		check(t, "C14", cases(60, 1500), 0, func(rt *rapid.T) {
			var h *c07History
			var verdict string
			if rapid.IntRange(0, 2).Draw(rt, "index-flip") == 0 {
				h, verdict = runConcurrent(rt, "C14", genIndexFlipProgram(rt))
			} else {
				h, verdict = concurrentCase(rt, "C14", []string{"createindex", "createindex", "createindex", "dropindex", "dropindex", "insert", "updatebyid", "deletebyid", "deletebyid", "find"})
			}
			col.Case(overlapWrite(h), hashOf(h.Setup, len(h.Ops), h.Ops[0].Op), func() interface{} {
				return map[string]interface{}{"mode": "concurrent", "backend": h.Backend, "operations": len(h.Ops), "verdict": verdict}
			}, "concurrent", "verdict:"+verdict)
		})
	})
}

func testC14Histories(t *testing.T) {
	(&smCheck{property: "C14", kind: "c14", rule: ruleC14, quick: 2000, thorough: 50000, stepsQ: 20, stepsT: 30,
		backends: []string{run.Bbolt, run.Bbolt, run.BadgerMem},
		profile:  func(rt *rapid.T) *sm.Profile { return c14Profile() },
		session:  c14Session,
		classify: func(s *sm.Session, p *sm.Profile, op cs.Op) (bool, []string) {
			var cl []string
			nt := false
			if op.Kind == "createindex" || op.Kind == "dropindex" {
				if c := s.M.Colls[op.Coll]; c != nil {
					for f := range c.Indexes {
						if fieldRelated(f, op.Field) {
							nt = true
							cl = append(cl, "related-sibling-index")
							break
						}
					}
				} else {
					cl = append(cl, "missing-collection")
				}
			}
			if op.Kind == "find" && op.Q.SortSet && len(op.Q.Sort) == 1 && op.Q.Crit == nil {
				cl = append(cl, "sort-only")
			}
			return nt, cl
		}}).run(t)
}
