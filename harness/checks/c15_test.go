package checks

import (
	"bytes"
	"encoding/json"
	"fmt"
	"os"
	"sort"
	"strings"
	"testing"

	"pgregory.net/rapid"

	"verif/harness/cs"
	"verif/harness/ev"
	"verif/harness/gen"
	"verif/harness/run"
	"verif/harness/sm"
)

const ruleC15 = "(a) the same generated single-threaded history (all operation kinds, indexes, sorted and windowed queries, failing operations, Close followed by further calls) runs on bbolt, badger in memory and badger on disk with small files (thorough: also badger with the shipped default options); after every step the outcomes must be identical across backends - same error class (same sentinel, or an error on all), same documents in the same order, same counts, booleans and catalogs - and each backend is also checked against the reference model. (b) cursor contract on both adapters directly: 0-40 keys of 1-64 bytes (prefix-related, some with empty values) written through Tx.Set and read either after commit or inside the writing transaction; for seek targets present, absent, before the first and after the last key, forward and reverse: the cursor lands on the first key >= target (forward) or the last key <= target (reverse), then visits every key once in order until invalid; Item returns the stored key and value; Get returns the value or nil; keys deleted again (in the same or a later transaction) are gone for Get and for every cursor, a transaction that wrote and deleted keys and was rolled back leaves no trace, and two cursors open at the same time in one read-only transaction keep independent positions. An evaluation is one history step or one cursor case; non-trivial for (a) when the step returns documents or an error, for (b) when the target is absent or outside the key range or an empty value is present; distinct = distinct (operation, state) resp. (keys, target, direction, mode)."

var c15Secondaries = map[*sm.Session][]*sm.Session{}

func outcomeDiff(a, b *cs.Outcome) string {
	ea, eb := a.Err, b.Err
	if (ea == "") != (eb == "") {
		return fmt.Sprintf("error on one backend only: %q vs %q", ea, eb)
	}
	tooBig := strings.Contains(ea, "Txn is too big") || strings.Contains(eb, "Txn is too big")
	if (a.Sentinel() || b.Sentinel()) && ea != eb && !tooBig {
		return fmt.Sprintf("different errors: %q vs %q", ea, eb)
	}
	if len(a.Docs) != len(b.Docs) {
		return fmt.Sprintf("%d vs %d documents", len(a.Docs), len(b.Docs))
	}
	for i := range a.Docs {
		if !cs.StrictEqual(map[string]interface{}(a.Docs[i]), map[string]interface{}(b.Docs[i])) {
			return fmt.Sprintf("position %d: %s vs %s", i, cs.Show(a.Docs[i]), cs.Show(b.Docs[i]))
		}
	}
	if a.N != b.N || a.B != b.B || a.Calls != b.Calls {
		return fmt.Sprintf("n=%d b=%v calls=%d vs n=%d b=%v calls=%d", a.N, a.B, a.Calls, b.N, b.B, b.Calls)
	}
	if strings.Join(a.Names, "\x00") != strings.Join(b.Names, "\x00") {
		return fmt.Sprintf("names %q vs %q", a.Names, b.Names)
	}
	if strings.Join(a.CbIds, ",") != strings.Join(b.CbIds, ",") {
		return fmt.Sprintf("update function called on %v vs %v", a.CbIds, b.CbIds)
	}
	return ""
}

func c15Backends() []string {
	bs := []string{run.BadgerMem, run.BadgerDisk}
	if ev.Thorough() || os.Getenv("VERIF_REPLAY") != "" {
		// the shipped default options are slow to open: only a share of the thorough cases use them
	}
	return bs
}

func c15Session(backend string) (*sm.Session, error) {
	// backend is "multi" or "multi+default"; the primary is bbolt
	s, err := sm.NewSession("C15", "c15", run.Bbolt)
	if err != nil {
		return nil, err
	}
	s.Backend = backend
	secs := []string{run.BadgerMem, run.BadgerDisk}
	if backend == "multi+default" {
		secs = append(secs, run.BadgerDefault)
	}
	var list []*sm.Session
	for _, b := range secs {
		sec, err := sm.NewSession("C15", "c15", b)
		if err != nil {
			s.Close()
			for _, x := range list {
				x.Close()
			}
			return nil, err
		}
		list = append(list, sec)
	}
	c15Secondaries[s] = list
	s.OnClose = append(s.OnClose, func() {
		for _, x := range c15Secondaries[s] {
			x.Close()
		}
		delete(c15Secondaries, s)
	})
	s.Hooks = []sm.Hook{func(s *sm.Session, op *cs.Op, out *cs.Outcome) *sm.Fail {
		audit := op.Kind == "dropindex" || op.Kind == "dropcoll"
		if audit && !s.M.Closed {
			// what a drop leaves behind differs between the engines' cursors: audit the raw keys
			if msg := run.Audit(s.H.Raw, s.M); msg != "" {
				return &sm.Fail{Property: "C15", Clause: "drop-residue", Detail: "[bbolt] " + msg + "  [after " + op.String() + "]"}
			}
		}
		for _, sec := range c15Secondaries[s] {
			if f := sec.Do(*op); f != nil {
				f.Detail = "[" + sec.Backend + "] " + f.Detail
				if f.Property != "C20" {
					f.Property = "C15"
				}
				return f
			}
			if audit && !sec.M.Closed {
				if msg := run.Audit(sec.H.Raw, sec.M); msg != "" {
					return &sm.Fail{Property: "C15", Clause: "drop-residue", Detail: "[" + sec.Backend + "] " + msg + "  [after " + op.String() + "]"}
				}
			}
			if msg := outcomeDiff(out, sec.Last); msg != "" {
				return &sm.Fail{Property: "C15", Clause: "backend-differential", Detail: fmt.Sprintf("bbolt vs %s: %s  [op %s]", sec.Backend, msg, clipStr(op.String(), 600))}
			}
		}
		return nil
	}}
	return s, nil
}

func c15Profile() *sm.Profile {
	return &sm.Profile{
		Name:        "c15",
		Colls:       []string{"A", "B", "ab", strings.Repeat("N", 520), strings.Repeat("N", 1030)},
		IndexFields: []string{"x", "y", "u", "n.a", "_id"},
		Doc:         gen.DocCfg{Val: gen.ValCfg{MaxDepth: 1, NonUTF8: true}, PAbsent: 4},
		IdPool:      24,
		MaxDocs:     14,
		BadIds:      true,
		BadDocs:     true,
		Crit:        gen.CritEnv{Val: gen.ValCfg{MaxDepth: 1}, GoKinds: true, MaxDepth: 3},
		Weights: []sm.W{{Kind: "createcoll", Weight: 4}, {Kind: "dropcoll", Weight: 2}, {Kind: "insert", Weight: 12}, {Kind: "save", Weight: 3}, {Kind: "replace", Weight: 3},
			{Kind: "updatebyid", Weight: 5}, {Kind: "update", Weight: 5}, {Kind: "updatefunc", Weight: 5}, {Kind: "delete", Weight: 4}, {Kind: "deletebyid", Weight: 4},
			{Kind: "createindex", Weight: 6}, {Kind: "dropindex", Weight: 3}, {Kind: "find", Weight: 16}, {Kind: "iterate", Weight: 3}, {Kind: "foreach", Weight: 4}, {Kind: "count", Weight: 4},
			{Kind: "exists", Weight: 2}, {Kind: "findfirst", Weight: 3}, {Kind: "findbyid", Weight: 3}, {Kind: "listcolls", Weight: 2}, {Kind: "hascoll", Weight: 1},
			{Kind: "listindexes", Weight: 2}, {Kind: "hasindex", Weight: 1}, {Kind: "createbyquery", Weight: 2}, {Kind: "close", Weight: 1}, {Kind: "biginsert", Weight: 1}},
	}
}

func init() { registerSM("C15", "c15", c15Session) }

// ------------------------------------------------------------------ (b) cursor contract

type c15Cursor struct {
	Backend string   `json:"backend"`
	SameTx  bool     `json:"sametx"`
	Keys    [][]byte `json:"keys"`
	Empty   []bool   `json:"empty"` // key i has an empty value
	Targets [][]byte `json:"targets"`
	Del     []bool   `json:"del,omitempty"`    // key i is deleted again before the reads
	Rolled  [][]byte `json:"rolled,omitempty"` // keys written and deleted by a transaction that is rolled back
}

func runCursor(c *c15Cursor) *sm.Fail {
	var f *sm.Fail
	out := run.Guard(func(o *cs.Outcome) { f = cursorBody(c) })
	if out.Err != "" {
		return &sm.Fail{Property: "C20", Clause: "no-panic-no-hang", Detail: "store adapter (" + c.Backend + "): " + out.Err}
	}
	return f
}

func cursorBody(c *c15Cursor) *sm.Fail {
	bad := func(f string, a ...interface{}) *sm.Fail {
		return &sm.Fail{Property: "C15", Clause: "cursor-contract", Detail: fmt.Sprintf("[%s sametx=%v] ", c.Backend, c.SameTx) + fmt.Sprintf(f, a...)}
	}
	dir := run.NewScratchDir("C15c")
	defer os.RemoveAll(dir)
	st, err := run.OpenStore(c.Backend, dir)
	if err != nil {
		return bad("open: %v", err)
	}
	defer st.Close()
	tx, err := st.Begin(true)
	if err != nil {
		return bad("begin: %v", err)
	}
	want := map[string][]byte{}
	for i, k := range c.Keys {
		v := []byte("v" + string(k))
		if c.Empty[i] {
			v = []byte{}
		}
		if i%5 == 4 && c.Empty[i] {
			v = nil
		}
		if err := tx.Set(k, v); err != nil {
			tx.Rollback()
			return bad("Set(%q): %v", k, err)
		}
		want[string(k)] = v
	}
	// some keys are deleted again: in the same transaction, or (committed data) in a second one
	if !c.SameTx && len(c.Del) > 0 {
		if err := tx.Commit(); err != nil {
			return bad("commit: %v", err)
		}
		if tx, err = st.Begin(true); err != nil {
			return bad("begin: %v", err)
		}
	}
	for i, k := range c.Keys {
		if i < len(c.Del) && c.Del[i] {
			if err := tx.Delete(k); err != nil {
				tx.Rollback()
				return bad("Delete(%q): %v", k, err)
			}
			delete(want, string(k))
		}
	}
	if !c.SameTx {
		if err := tx.Commit(); err != nil {
			return bad("commit: %v", err)
		}
		if len(c.Rolled) > 0 {
			// a transaction that writes new keys and deletes stored ones, then rolls back: no trace
			rtx, err := st.Begin(true)
			if err != nil {
				return bad("begin: %v", err)
			}
			for _, k := range c.Rolled {
				if _, stored := want[string(k)]; stored {
					err = rtx.Delete(k)
				} else {
					err = rtx.Set(k, []byte("rolled-back"))
				}
				if err != nil {
					rtx.Rollback()
					return bad("write in the transaction to roll back (%q): %v", k, err)
				}
			}
			if err := rtx.Rollback(); err != nil {
				return bad("Rollback: %v", err)
			}
		}
		if tx, err = st.Begin(false); err != nil {
			return bad("begin: %v", err)
		}
	}
	defer tx.Rollback()
	for i, k := range c.Keys {
		if i < len(c.Del) && c.Del[i] {
			if v, err := tx.Get(k); err != nil || v != nil {
				return bad("Get of the deleted key %q = %q, %v (expected nil, nil)", k, v, err)
			}
		}
	}
	sorted := make([]string, 0, len(want))
	for k := range want {
		sorted = append(sorted, k)
	}
	sort.Strings(sorted)
	for _, k := range sorted {
		v, err := tx.Get([]byte(k))
		if err != nil {
			return bad("Get(%q): %v", k, err)
		}
		if !bytes.Equal(v, want[k]) {
			return bad("Get(%q) = %q, stored %q", k, v, want[k])
		}
	}
	for _, target := range c.Targets {
		if _, present := want[string(target)]; !present && len(target) > 0 {
			if v, err := tx.Get(target); err != nil || v != nil {
				return bad("Get of the absent key %q = %q, %v (expected nil, nil)", target, v, err)
			}
		}
		for _, forward := range []bool{true, false} {
			var exp []string
			if forward {
				i := sort.SearchStrings(sorted, string(target))
				exp = sorted[i:]
			} else {
				i := sort.Search(len(sorted), func(i int) bool { return sorted[i] > string(target) })
				for j := i - 1; j >= 0; j-- {
					exp = append(exp, sorted[j])
				}
			}
			cur, err := tx.Cursor(forward)
			if err != nil {
				return bad("Cursor: %v", err)
			}
			if err := cur.Seek(target); err != nil {
				cur.Close()
				return bad("Seek(%q): %v", target, err)
			}
			var got []string
			for ; cur.Valid(); cur.Next() {
				it, err := cur.Item()
				if err != nil {
					cur.Close()
					return bad("Item: %v", err)
				}
				if !bytes.Equal(it.Value, want[string(it.Key)]) {
					cur.Close()
					return bad("Item at %q has value %q, stored %q", it.Key, it.Value, want[string(it.Key)])
				}
				got = append(got, string(it.Key))
				if len(got) > len(sorted)+2 {
					break
				}
			}
			cur.Close()
			if strings.Join(got, "\x00") != strings.Join(exp, "\x00") || len(got) != len(exp) {
				return bad("seek %q forward=%v over %d keys visits %q, expected %q", target, forward, len(sorted), clipKeys(got), clipKeys(exp))
			}
		}
	}
	// two cursors open at the same time in one read-only transaction, stepped alternately: each
	// keeps its own position (a read-write badger transaction allows one iterator only, so this
	// part needs the committed data)
	if !c.SameTx && len(c.Targets) >= 2 {
		expect := func(target []byte, forward bool) []string {
			var exp []string
			if forward {
				exp = sorted[sort.SearchStrings(sorted, string(target)):]
			} else {
				i := sort.Search(len(sorted), func(i int) bool { return sorted[i] > string(target) })
				for j := i - 1; j >= 0; j-- {
					exp = append(exp, sorted[j])
				}
			}
			return exp
		}
		for i := 0; i+1 < len(c.Targets) && i < 4; i++ {
			fa, fb := i%2 == 0, i%3 == 0
			ta, tb := c.Targets[i], c.Targets[i+1]
			ea, eb := expect(ta, fa), expect(tb, fb)
			ca, err := tx.Cursor(fa)
			if err != nil {
				return bad("Cursor: %v", err)
			}
			cb, err := tx.Cursor(fb)
			if err != nil {
				ca.Close()
				return bad("second Cursor: %v", err)
			}
			fail := func(f string, a ...interface{}) *sm.Fail {
				ca.Close()
				cb.Close()
				return bad("two open cursors (seek %q forward=%v and seek %q forward=%v): "+f, append([]interface{}{ta, fa, tb, fb}, a...)...)
			}
			if err := ca.Seek(ta); err != nil {
				return fail("Seek: %v", err)
			}
			if err := cb.Seek(tb); err != nil {
				return fail("Seek: %v", err)
			}
			var ga, gb []string
			for step := 0; step <= 2*len(sorted)+4 && (ca.Valid() || cb.Valid()); step++ {
				cur, got := ca, &ga
				if (step%2 == 1 && cb.Valid()) || !ca.Valid() {
					cur, got = cb, &gb
				}
				it, err := cur.Item()
				if err != nil {
					return fail("Item: %v", err)
				}
				*got = append(*got, string(it.Key))
				cur.Next()
			}
			if strings.Join(ga, "\x00") != strings.Join(ea, "\x00") || len(ga) != len(ea) {
				return fail("the first cursor visits %q, expected %q", clipKeys(ga), clipKeys(ea))
			}
			if strings.Join(gb, "\x00") != strings.Join(eb, "\x00") || len(gb) != len(eb) {
				return fail("the second cursor visits %q, expected %q", clipKeys(gb), clipKeys(eb))
			}
			ca.Close()
			cb.Close()
		}
	}
	return nil
}

func clipKeys(ks []string) []string {
	if len(ks) > 8 {
		return append(append([]string{}, ks[:8]...), fmt.Sprintf("…(%d)", len(ks)))
	}
	return ks
}

func init() {
	replayers["c15cursor"] = func(raw json.RawMessage) *sm.Fail {
		var c c15Cursor
		if err := json.Unmarshal(raw, &c); err != nil {
			return &sm.Fail{Property: "C15", Clause: "replay", Detail: err.Error()}
		}
		return runCursor(&c)
	}
}

func TestC15(t *testing.T) {
	col := collector("C15", ruleC15)
	t.Run("histories", func(t *testing.T) {
		check(t, "C15", cases(250, 12000), ev.Scale(20, 30), func(rt *rapid.T) {
			backend := "multi"
			if ev.Thorough() && rapid.IntRange(0, 19).Draw(rt, "default-options") == 0 {
				backend = "multi+default"
			}
			p := c15Profile()
			s, err := c15Session(backend)
			if err != nil {
				rt.Fatalf("open: %v", err)
			}
			defer s.Close()
			col.Add("histories", 1)
			do := func(op cs.Op) {
				if f := s.Do(op); f != nil {
					violate(rt, "C15", "c15", s.Program(f), f)
				}
			}
			p.Seed(rt, s, do)
			rt.Repeat(map[string]func(*rapid.T){
				"step": func(rt *rapid.T) {
					op := p.Draw(rt, s)
					do(op)
					nt := s.Last != nil && (len(s.Last.Docs) > 0 || s.Last.Err != "")
					cl := []string{"histories", "op:" + op.Kind, "backends:" + backend}
					if s.M.Closed {
						cl = append(cl, "after-close")
					}
					if s.Last != nil && s.Last.Err != "" {
						cl = append(cl, "error-step")
					}
					col.Case(nt, hashOf(op, stateDigest(s)), func() interface{} {
						return map[string]interface{}{"op": op, "history_len": len(s.Ops), "backends": backend}
					}, cl...)
				},
			})
		})
	})
	t.Run("cursor", func(t *testing.T) {
		alphabet := []byte{0x00, 0x01, 'a', 'b', 'c', ';', ':', 0xfe, 0xff}
		check(t, "C15", cases(4000, 300000), 0, func(rt *rapid.T) {
			c := &c15Cursor{Backend: rapid.SampledFrom([]string{run.Bbolt, run.BadgerMem}).Draw(rt, "backend"), SameTx: rapid.Bool().Draw(rt, "sametx")}
			key := func(label string) []byte {
				n := rapid.SampledFrom([]int{1, 1, 2, 2, 3, 4, 8, 64}).Draw(rt, label+"len")
				k := make([]byte, n)
				for i := range k {
					k[i] = rapid.SampledFrom(alphabet).Draw(rt, label+"b")
				}
				return k
			}
			n := rapid.SampledFrom([]int{0, 1, 2, 3, 5, 10, 40}).Draw(rt, "nkeys")
			seen := map[string]bool{}
			anyEmpty := false
			for i := 0; i < n; i++ {
				k := key("k")
				if seen[string(k)] {
					continue
				}
				seen[string(k)] = true
				c.Keys = append(c.Keys, k)
				e := rapid.IntRange(0, 3).Draw(rt, "empty") == 0
				anyEmpty = anyEmpty || e
				c.Empty = append(c.Empty, e)
				c.Del = append(c.Del, rapid.IntRange(0, 4).Draw(rt, "deleted") == 0)
			}
			if !c.SameTx && rapid.Bool().Draw(rt, "with-rollback") {
				for i := rapid.IntRange(1, 4).Draw(rt, "nrolled"); i > 0; i-- {
					if len(c.Keys) > 0 && rapid.Bool().Draw(rt, "rolled-stored") {
						c.Rolled = append(c.Rolled, append([]byte{}, rapid.SampledFrom(c.Keys).Draw(rt, "rolledkey")...))
					} else {
						c.Rolled = append(c.Rolled, key("r"))
					}
				}
			}
			sorted := make([]string, 0, len(c.Keys))
			for i, k := range c.Keys {
				if c.Del[i] {
					delete(seen, string(k))
					continue
				}
				sorted = append(sorted, string(k))
			}
			sort.Strings(sorted)
			nt := anyEmpty
			cl := []string{"cursor", "backend:" + c.Backend, fmt.Sprintf("sametx:%v", c.SameTx)}
			if len(sorted) < len(c.Keys) {
				cl = append(cl, "with-deleted-keys")
			}
			if len(c.Rolled) > 0 {
				cl = append(cl, "with-rolled-back-transaction")
			}
			for i := rapid.IntRange(1, 4).Draw(rt, "ntargets"); i > 0; i-- {
				var tgt []byte
				switch rapid.IntRange(0, 5).Draw(rt, "tkind") {
				case 0:
					tgt = []byte{0x00} // at or before the first possible key (targets are 1-64 bytes like the keys)
					cl = append(cl, "target:lowest")
				case 1:
					tgt = []byte{0xff, 0xff, 0xff}
					cl = append(cl, "target:after-last")
				case 2, 3:
					if len(c.Keys) > 0 {
						tgt = append([]byte{}, rapid.SampledFrom(c.Keys).Draw(rt, "tpresent")...)
						if rapid.Bool().Draw(rt, "textend") {
							tgt = append(tgt, rapid.SampledFrom(alphabet).Draw(rt, "text"))
						}
						break
					}
					fallthrough
				default:
					tgt = key("t")
				}
				if !seen[string(tgt)] {
					nt = true
					cl = append(cl, "target:absent")
				} else {
					cl = append(cl, "target:present")
				}
				if len(sorted) > 0 && (string(tgt) < sorted[0] || string(tgt) > sorted[len(sorted)-1]) {
					cl = append(cl, "target:outside-range")
				}
				c.Targets = append(c.Targets, tgt)
			}
			if f := runCursor(c); f != nil {
				violate(rt, "C15", "c15cursor", c, f)
			}
			col.Case(nt, hashOf(c), func() interface{} {
				return map[string]interface{}{"backend": c.Backend, "same_tx": c.SameTx, "keys": len(c.Keys), "targets": fmt.Sprintf("%q", c.Targets)}
			}, cl...)
		})
	})
}
