package checks

import (
	"encoding/json"
	"fmt"
	"os"
	"path/filepath"
	"runtime"
	"strings"
	"sync"
	"sync/atomic"
	"time"

	"verif/harness/cs"
	"verif/harness/gen"
	"verif/harness/model"
	"verif/harness/run"
	"verif/harness/sm"
)

// c13Race: several clients try to create the same collection name at the same time
// through CreateCollection, CreateCollectionByQuery and ImportCollection, with the schedule
// perturbed at every store call. Whatever the interleaving, at most one creator may
// succeed, every other one must fail with ErrCollectionExist (or a store conflict) without
// side effects, and afterwards the collection must hold exactly the winner's content, with
// a consistent counter and no stray keys (raw audit); the source collection is untouched.
type c13RaceCase struct {
	Backend string   `json:"backend"`
	Docs    []cs.Doc `json:"docs"`    // documents of the source collection A
	Index   string   `json:"index"`   // index on A ("" = none)
	Racers  []string `json:"racers"`  // createcoll | createbyquery | import
	FileIds []int    `json:"fileids"` // ids of the documents in the import file
	Bits    []byte   `json:"bits"`
}

func runC13Race(c *c13RaceCase) *sm.Fail {
	bad := func(clause, f string, a ...interface{}) *sm.Fail {
		return &sm.Fail{Property: "C13", Clause: clause, Detail: fmt.Sprintf(f, a...)}
	}
	s, err := sm.NewSession("C13", "c13race", c.Backend)
	if err != nil {
		return bad("harness", "open: %v", err)
	}
	defer s.Close()
	setup := []cs.Op{{Kind: "createcoll", Coll: "A"}, {Kind: "insert", Coll: "A", Docs: c.Docs}}
	if c.Index != "" {
		setup = append(setup, cs.Op{Kind: "createindex", Coll: "A", Field: c.Index})
	}
	for _, op := range setup {
		if f := s.Do(op); f != nil {
			return f
		}
	}
	var fileDocs []cs.Doc
	var list []interface{}
	for _, k := range c.FileIds {
		d := cs.Doc{"_id": gen.Id(200 + k), "tag": "imported"}
		fileDocs = append(fileDocs, d)
		list = append(list, map[string]interface{}(d))
	}
	if list == nil {
		list = []interface{}{}
	}
	fb, _ := json.Marshal(list)
	path := filepath.Join(s.FilesDir(), "race.json")
	os.WriteFile(path, fb, 0o644)

	var bitIdx int64
	s.H.Deco.Yield = func() {
		if len(c.Bits) == 0 {
			return
		}
		b := c.Bits[int(atomic.AddInt64(&bitIdx, 1))%len(c.Bits)]
		switch b & 3 {
		case 1:
			runtime.Gosched()
		case 2:
			time.Sleep(time.Duration(b>>2) * 3 * time.Microsecond)
		}
	}
	ops := make([]cs.Op, len(c.Racers))
	for i, k := range c.Racers {
		switch k {
		case "createcoll":
			ops[i] = cs.Op{Kind: "createcoll", Coll: "R"}
		case "createbyquery":
			ops[i] = cs.Op{Kind: "createbyquery", Coll: "R", Q: &cs.Query{Coll: "A"}}
		case "import":
			ops[i] = cs.Op{Kind: "import", Coll: "R", Path: path}
		}
	}
	outs := make([]*cs.Outcome, len(ops))
	var wg sync.WaitGroup
	gate := make(chan struct{})
	for i := range ops {
		wg.Add(1)
		go func(i int) {
			defer wg.Done()
			<-gate
			outs[i] = run.Exec(s.H.DB, &ops[i])
		}(i)
	}
	close(gate)
	wg.Wait()
	s.H.Deco.Yield = nil
	winner := -1
	for i, o := range outs {
		switch {
		case strings.HasPrefix(o.Err, "panic") || o.Err == "hang":
			return &sm.Fail{Property: "C20", Clause: "no-panic-no-hang", Detail: ops[i].Kind + ": " + o.Err}
		case o.Err == "":
			if winner >= 0 {
				return bad("catalog-race", "two concurrent creators of collection R both succeeded: %s and %s", c.Racers[winner], c.Racers[i])
			}
			winner = i
		case o.Err == "ErrCollectionExist" || isConflict(o.Err):
		case c.Racers[i] == "import":
			// importing under an existing name fails; the properties name no particular error
		default:
			return bad("catalog-race", "concurrent %s of an existing name failed with %q, expected ErrCollectionExist", c.Racers[i], o.Err)
		}
	}
	m := s.M.Clone()
	if winner >= 0 {
		nc := &model.Coll{Docs: map[string]cs.Doc{}, Indexes: map[string]bool{}}
		switch c.Racers[winner] {
		case "createbyquery":
			for id, d := range s.M.Colls["A"].Docs {
				nc.Docs[id] = d
			}
		case "import":
			for _, d := range fileDocs {
				nc.Docs[d["_id"].(string)] = d
			}
		}
		m.Colls["R"] = nc
	}
	who := "nobody"
	if winner >= 0 {
		who = c.Racers[winner]
	}
	if msg := verifyState(s.H, m); msg != "" {
		return bad("catalog-race", "after %v raced for the name R (winner: %s) the database is inconsistent: %s", c.Racers, who, msg)
	}
	return nil
}

func init() {
	replayers["c13race"] = func(raw json.RawMessage) *sm.Fail {
		var c c13RaceCase
		if err := json.Unmarshal(raw, &c); err != nil {
			return &sm.Fail{Property: "C13", Clause: "replay", Detail: err.Error()}
		}
		// schedules are not reproducible: try the case several times
		for i := 0; i < 20; i++ {
			if f := runC13Race(&c); f != nil {
				return f
			}
		}
		return nil
	}
}
