package checks

import (
	"encoding/json"
	"fmt"
	"os"
	"path/filepath"
	"runtime"
	"strings"
	"sync"
	"sync/atomic"
	"time"

	"verif/harness/cs"
	"verif/harness/gen"
	"verif/harness/model"
	"verif/harness/run"
	"verif/harness/sm"
)

// raceBackends: where the concurrent parts run - mostly the cheap stores, sometimes badger
// exactly as shipped (badgerstore.Open, default options, on disk)
var raceBackends = []string{run.Bbolt, run.Bbolt, run.Bbolt, run.BadgerMem, run.BadgerMem, run.BadgerMem, run.BadgerDefault, run.BadgerDefault}

// c13Race: several clients try to create the same collection name at the same time
// through CreateCollection, CreateCollectionByQuery and ImportCollection, with the schedule
// perturbed at every store call. Whatever the interleaving, at most one creator may
// succeed, every other one must fail with ErrCollectionExist (or a store conflict) without
// side effects, and afterwards the collection must hold exactly the winner's content, with
// a consistent counter and no stray keys (raw audit); the source collection is untouched.
type c13RaceCase struct {
	Backend string   `json:"backend"`
	Docs    []cs.Doc `json:"docs"`    // documents of the source collection A
	Index   string   `json:"index"`   // index on A ("" = none)
	Racers  []string `json:"racers"`  // createcoll | createbyquery | import
	FileIds []int    `json:"fileids"` // ids of the documents in the import file
	Bits    []byte   `json:"bits"`
}

func runC13Race(c *c13RaceCase) *sm.Fail { return runCatalogRace(c, "C13") }

func runCatalogRace(c *c13RaceCase, owner string) *sm.Fail {
	bad := func(clause, f string, a ...interface{}) *sm.Fail {
		return &sm.Fail{Property: owner, Clause: clause, Detail: fmt.Sprintf(f, a...)}
	}
	s, err := sm.NewSession(owner, "c13race", c.Backend)
	if err != nil {
		return bad("harness", "open: %v", err)
	}
	defer s.Close()
	setup := []cs.Op{{Kind: "createcoll", Coll: "A"}, {Kind: "insert", Coll: "A", Docs: c.Docs}}
	if c.Index != "" {
		setup = append(setup, cs.Op{Kind: "createindex", Coll: "A", Field: c.Index})
	}
	for _, op := range setup {
		if f := s.Do(op); f != nil {
			return f
		}
	}
	var fileDocs []cs.Doc
	var list []interface{}
	for _, k := range c.FileIds {
		d := cs.Doc{"_id": gen.Id(200 + k), "tag": "imported"}
		fileDocs = append(fileDocs, d)
		list = append(list, map[string]interface{}(d))
	}
	if list == nil {
		list = []interface{}{}
	}
	fb, _ := json.Marshal(list)
	path := filepath.Join(s.FilesDir(), "race.json")
	os.WriteFile(path, fb, 0o644)

	var bitIdx int64
	s.H.Deco.Yield = func() {
		if len(c.Bits) == 0 {
			return
		}
		b := c.Bits[int(atomic.AddInt64(&bitIdx, 1))%len(c.Bits)]
		switch b & 3 {
		case 1:
			runtime.Gosched()
		case 2:
			time.Sleep(time.Duration(b>>2) * 3 * time.Microsecond)
		}
	}
	ops := make([]cs.Op, len(c.Racers))
	for i, k := range c.Racers {
		switch k {
		case "createcoll":
			ops[i] = cs.Op{Kind: "createcoll", Coll: "R"}
		case "createbyquery":
			ops[i] = cs.Op{Kind: "createbyquery", Coll: "R", Q: &cs.Query{Coll: "A"}}
		case "import":
			ops[i] = cs.Op{Kind: "import", Coll: "R", Path: path}
		}
	}
	outs := make([]*cs.Outcome, len(ops))
	var wg sync.WaitGroup
	gate := make(chan struct{})
	for i := range ops {
		wg.Add(1)
		go func(i int) {
			defer wg.Done()
			<-gate
			outs[i] = run.Exec(s.H.DB, &ops[i])
		}(i)
	}
	close(gate)
	wg.Wait()
	s.H.Deco.Yield = nil
	winner := -1
	for i, o := range outs {
		switch {
		case strings.HasPrefix(o.Err, "panic") || o.Err == "hang":
			return &sm.Fail{Property: "C20", Clause: "no-panic-no-hang", Detail: ops[i].Kind + ": " + o.Err}
		case o.Err == "":
			if winner >= 0 {
				return bad("catalog-race", "two concurrent creators of collection R both succeeded: %s and %s", c.Racers[winner], c.Racers[i])
			}
			winner = i
		case o.Err == "ErrCollectionExist" || isConflict(o.Err):
		case c.Racers[i] == "import":
			// importing under an existing name fails; the properties name no particular error
		default:
			return bad("catalog-race", "concurrent %s of an existing name failed with %q, expected ErrCollectionExist", c.Racers[i], o.Err)
		}
	}
	m := s.M.Clone()
	if winner >= 0 {
		nc := &model.Coll{Docs: map[string]cs.Doc{}, Indexes: map[string]bool{}}
		switch c.Racers[winner] {
		case "createbyquery":
			for id, d := range s.M.Colls["A"].Docs {
				nc.Docs[id] = d
			}
		case "import":
			for _, d := range fileDocs {
				nc.Docs[d["_id"].(string)] = d
			}
		}
		m.Colls["R"] = nc
	}
	who := "nobody"
	if winner >= 0 {
		who = c.Racers[winner]
	}
	if msg := verifyState(s.H, m); msg != "" {
		return bad("catalog-race", "after %v raced for the name R (winner: %s) the database is inconsistent: %s", c.Racers, who, msg)
	}
	return nil
}

func init() {
	replayers["c12race"] = func(raw json.RawMessage) *sm.Fail {
		var c c12RaceCase
		if err := json.Unmarshal(raw, &c); err != nil {
			return &sm.Fail{Property: "C12", Clause: "replay", Detail: err.Error()}
		}
		for i := 0; i < 20; i++ {
			if f := runC12Race(&c); f != nil {
				return f
			}
		}
		return nil
	}
	replayers["c13race"] = func(raw json.RawMessage) *sm.Fail {
		var c c13RaceCase
		if err := json.Unmarshal(raw, &c); err != nil {
			return &sm.Fail{Property: "C13", Clause: "replay", Detail: err.Error()}
		}
		// schedules are not reproducible: try the case several times
		for i := 0; i < 20; i++ {
			if f := runC13Race(&c); f != nil {
				return f
			}
		}
		return nil
	}
}

// c12Race: several clients insert documents carrying the same _id at the same time (single
// inserts and batches). Exactly one of the colliding documents may be stored; every other
// insert must fail with ErrDuplicateKey (or a store conflict) and leave nothing behind; the
// stored document is one of the candidates, counters and index entries are consistent.
type c12RaceCase struct {
	Backend string  `json:"backend"`
	Index   bool    `json:"index"`
	Batches [][]int `json:"batches"` // per client: the id numbers of its batch (id 0 is the contended one)
	Bits    []byte  `json:"bits"`
}

func runC12Race(c *c12RaceCase) *sm.Fail {
	bad := func(clause, f string, a ...interface{}) *sm.Fail {
		return &sm.Fail{Property: "C12", Clause: clause, Detail: fmt.Sprintf(f, a...)}
	}
	s, err := sm.NewSession("C12", "c12race", c.Backend)
	if err != nil {
		return bad("harness", "open: %v", err)
	}
	defer s.Close()
	setup := []cs.Op{{Kind: "createcoll", Coll: "A"}}
	if c.Index {
		setup = append(setup, cs.Op{Kind: "createindex", Coll: "A", Field: "who"})
	}
	for _, op := range setup {
		if f := s.Do(op); f != nil {
			return f
		}
	}
	var bitIdx int64
	s.H.Deco.Yield = func() {
		if len(c.Bits) == 0 {
			return
		}
		b := c.Bits[int(atomic.AddInt64(&bitIdx, 1))%len(c.Bits)]
		switch b & 3 {
		case 1:
			runtime.Gosched()
		case 2:
			time.Sleep(time.Duration(b>>2) * 3 * time.Microsecond)
		}
	}
	ops := make([]cs.Op, len(c.Batches))
	for i, b := range c.Batches {
		var docs []cs.Doc
		for _, k := range b {
			id := gen.Id(k)
			if k != 0 {
				id = gen.Id(100*(i+1) + k) // private ids never collide
			}
			docs = append(docs, cs.Doc{"_id": id, "who": int64(i)})
		}
		ops[i] = cs.Op{Kind: "insert", Coll: "A", Docs: docs}
	}
	outs := make([]*cs.Outcome, len(ops))
	var wg sync.WaitGroup
	gate := make(chan struct{})
	for i := range ops {
		wg.Add(1)
		go func(i int) {
			defer wg.Done()
			<-gate
			outs[i] = run.Exec(s.H.DB, &ops[i])
		}(i)
	}
	close(gate)
	wg.Wait()
	s.H.Deco.Yield = nil
	m := s.M.Clone()
	contenders, winners := 0, 0
	for i, o := range outs {
		if strings.HasPrefix(o.Err, "panic") || o.Err == "hang" {
			return &sm.Fail{Property: "C20", Clause: "no-panic-no-hang", Detail: "concurrent insert: " + o.Err}
		}
		has0 := false
		for _, k := range c.Batches[i] {
			if k == 0 {
				has0 = true
			}
		}
		if has0 {
			contenders++
		}
		switch {
		case o.Err == "":
			if has0 {
				winners++
			}
			for _, d := range ops[i].Docs {
				m.Colls["A"].Docs[d["_id"].(string)] = d
			}
		case o.Err == "ErrDuplicateKey" && has0, isConflict(o.Err):
		default:
			return bad("id-race", "concurrent Insert %v failed with %q", c.Batches[i], o.Err)
		}
	}
	if winners > 1 {
		return bad("id-race", "%d concurrent inserts of the same _id all succeeded (batches %v)", winners, c.Batches)
	}
	if msg := verifyState(s.H, m); msg != "" {
		return bad("id-race", "after %d clients raced to insert the same _id (batches %v) the database is inconsistent: %s", contenders, c.Batches, msg)
	}
	return nil
}
