package checks

import (
	"bufio"
	"encoding/json"
	"fmt"
	"os"
	"os/exec"
	"path/filepath"
	"strconv"
	"strings"
	"syscall"
	"testing"
	"time"

	"pgregory.net/rapid"

	"verif/harness/cs"
	"verif/harness/ev"
	"verif/harness/gen"
	"verif/harness/model"
	"verif/harness/run"
	"verif/harness/sm"
)

const ruleC05 = "generated programs of 4-20 write operations (incl. parameterised batches of up to 2000 documents so that one commit spans many pages, indexes, bulk updates/deletes, drops) on bbolt on disk and badger on disk. Crash points: (a) clean Close/Open after generated prefixes (in-process state machine with a reopen action); (b) a worker process replays the program and SIGKILLs itself inside the k-th store call of operation i - transaction abandoned before commit - for enumerated (i, k), and right after the store's commit returned but before the operation returned; (c) bbolt: the worker runs under strace with SIGKILL injected at the N-th pwrite64 / fdatasync, N enumerated; (d) SIGKILL from the parent after a drawn delay. Oracle: the reopened directory must open, and its full logical state (catalog, every document, Count, one ordered scan per index, complete raw key audit) must equal the reference model after the last acknowledged operation or - only if an operation was in flight - after that operation. An evaluation is one crash/reopen; non-trivial when the kill landed between START and ACK of an operation or a transaction was abandoned after at least one Set; distinct = distinct (program, crash point)."

type c05Case struct {
	Backend  string  `json:"backend"`
	Ops      []cs.Op `json:"ops"`  // literal ids (geninsert allowed)
	Mode     string  `json:"mode"` // selfkill | strace | random | none
	KillOp   int     `json:"killop"`
	KillCall int64   `json:"killcall"`
	After    bool    `json:"after"`
	Syscall  string  `json:"syscall,omitempty"`
	When     int     `json:"when,omitempty"`
	DelayUS  int     `json:"delayus,omitempty"`
}

func c05Profile() *sm.Profile {
	return &sm.Profile{
		Name:         "c05",
		Colls:        []string{"A", "B"},
		IndexFields:  []string{"x", "y", "u"},
		Doc:          gen.DocCfg{Val: gen.ValCfg{MaxDepth: 1}, PAbsent: 4},
		IdPool:       48,
		MaxDocs:      30,
		Crit:         gen.CritEnv{Val: gen.ValCfg{MaxDepth: 0}, MaxDepth: 2, NoFunc: true, Fields: []string{"x", "y", "u", "_id"}},
		NoWindowBulk: false,
		Weights: []sm.W{{Kind: "createcoll", Weight: 3}, {Kind: "insert", Weight: 12}, {Kind: "save", Weight: 2}, {Kind: "replace", Weight: 3},
			{Kind: "updatebyid", Weight: 5}, {Kind: "update", Weight: 6}, {Kind: "updatefunc", Weight: 6}, {Kind: "delete", Weight: 4},
			{Kind: "deletebyid", Weight: 4}, {Kind: "createindex", Weight: 6}, {Kind: "dropindex", Weight: 3}, {Kind: "dropcoll", Weight: 2},
			{Kind: "createbyquery", Weight: 2}},
	}
}

func workerBin() string {
	if b := os.Getenv("VERIF_BIN"); b != "" {
		return filepath.Join(b, "crashworker")
	}
	return "/verif/bin/crashworker"
}

// reference runs the program in-process (bbolt scratch) and returns the model after every
// prefix, the resolved operations and the number of fallible store calls of each one.
func c05Reference(ops []cs.Op, target string) (snaps []*model.DB, resolved []cs.Op, calls []int64, sets [][]int, fail *sm.Fail) {
	ref := run.Bbolt
	if target == run.BadgerDiskSmall {
		// same transaction budget as the backend under test, so that an oversized operation is
		// refused (a legal no-op failure) in the reference run too
		ref = run.BadgerMemSmall
	}
	s, err := sm.NewSession("C05", "c05ref", ref)
	if err != nil {
		return nil, nil, nil, nil, &sm.Fail{Property: "C05", Clause: "harness", Detail: err.Error()}
	}
	defer s.Close()
	s.Hooks = []sm.Hook{func(_ *sm.Session, op *cs.Op, _ *cs.Outcome) *sm.Fail {
		resolved = append(resolved, *op)
		return nil
	}}
	snaps = append(snaps, s.M.Clone())
	for _, op := range ops {
		s.H.Deco.Arm(0, true)
		f := s.Do(op)
		calls = append(calls, s.H.Deco.Seq)
		sets = append(sets, append([]int{}, s.H.Deco.Trace...))
		s.H.Deco.Disarm()
		if f != nil {
			return nil, nil, nil, nil, f
		}
		snaps = append(snaps, s.M.Clone())
	}
	return
}

// verifyState compares the complete logical state of an open handle with a model.
func verifyState(h *run.Handle, m *model.DB) string {
	s := &sm.Session{Property: "C05", H: h, M: m.Clone(), Facts: map[string]int{}}
	lc := run.Exec(h.DB, &cs.Op{Kind: "listcolls"})
	if lc.Err != "" {
		return "ListCollections failed: " + lc.Err
	}
	if msg := sameNames(lc.Names, m.CollNames()); msg != "" {
		return "catalog: " + msg
	}
	for _, n := range m.CollNames() {
		if f := collEquals(s, "C05", "state", n, m.Colls[n]); f != nil {
			return f.Detail
		}
	}
	if f := countHook(s, &cs.Op{Kind: "verify"}, nil); f != nil {
		return f.Detail
	}
	if msg := run.Audit(h.Raw, m); msg != "" {
		return "raw audit: " + msg
	}
	return ""
}

func sameNames(got, want []string) string {
	g := append([]string{}, got...)
	w := append([]string{}, want...)
	sortStrings(g)
	sortStrings(w)
	if strings.Join(g, "\x00") != strings.Join(w, "\x00") || len(g) != len(w) {
		return fmt.Sprintf("%q vs model %q", g, w)
	}
	return ""
}

func sortStrings(s []string) {
	for i := 1; i < len(s); i++ {
		for j := i; j > 0 && s[j] < s[j-1]; j-- {
			s[j], s[j-1] = s[j-1], s[j]
		}
	}
}

type c05Result struct {
	LastAck  int // -1 = none
	InFlight int // -1 = none
	Killed   bool
	Opened   bool
	Log      string
}

// c05Run executes one crash case and returns the verdict plus what happened.
func c05Run(c *c05Case) (*sm.Fail, *c05Result) {
	bad := func(clause, f string, a ...interface{}) *sm.Fail {
		return &sm.Fail{Property: "C05", Clause: clause, Detail: fmt.Sprintf(f, a...)}
	}
	snaps, resolved, _, _, rf := c05Reference(c.Ops, c.Backend)
	if rf != nil {
		return rf, nil
	}
	dir := run.NewScratchDir("C05")
	defer os.RemoveAll(dir)
	dbdir := filepath.Join(dir, "db")
	os.MkdirAll(dbdir, 0o755)
	prog := filepath.Join(dir, "program.json")
	pb, _ := json.Marshal(resolved)
	os.WriteFile(prog, pb, 0o644)
	logPath := filepath.Join(dir, "log")
	args := []string{"-backend", c.Backend, "-dir", dbdir, "-program", prog, "-log", logPath}
	var cmd *exec.Cmd
	switch c.Mode {
	case "selfkill":
		args = append(args, "-kill-op", strconv.Itoa(c.KillOp), "-kill-call", strconv.FormatInt(c.KillCall, 10))
		if c.After {
			args = append(args, "-kill-after-commit")
		}
		cmd = exec.Command(workerBin(), args...)
	case "strace":
		args = append(args, "-pin")
		sargs := []string{"-f", "-qq", "-o", "/dev/null", "-e", "trace=" + c.Syscall, "-e", fmt.Sprintf("inject=%s:signal=SIGKILL:when=%d", c.Syscall, c.When), workerBin()}
		cmd = exec.Command("strace", append(sargs, args...)...)
	default:
		cmd = exec.Command(workerBin(), args...)
	}
	var stderr strings.Builder
	cmd.Stderr = &stderr
	if err := cmd.Start(); err != nil {
		return bad("harness", "cannot start worker: %v", err), nil
	}
	done := make(chan error, 1)
	go func() { done <- cmd.Wait() }()
	if c.Mode == "random" {
		select {
		case <-done:
			done <- nil
		case <-time.After(time.Duration(c.DelayUS) * time.Microsecond):
			cmd.Process.Signal(syscall.SIGKILL)
		}
	}
	var werr error
	select {
	case werr = <-done:
	case <-time.After(120 * time.Second):
		cmd.Process.Kill()
		return bad("harness", "worker did not finish within 120 s"), nil
	}
	res := &c05Result{LastAck: -1, InFlight: -1}
	if werr != nil {
		res.Killed = true
		if ee, ok := werr.(*exec.ExitError); ok && ee.ExitCode() > 0 && ee.ExitCode() != 137 {
			return bad("harness", "worker exited with %d: %s", ee.ExitCode(), stderr.String()), nil
		}
	}
	if lf, err := os.Open(logPath); err == nil {
		sc := bufio.NewScanner(lf)
		for sc.Scan() {
			line := sc.Text()
			res.Log += line + ";"
			parts := strings.Fields(line)
			if len(parts) >= 2 {
				n, _ := strconv.Atoi(parts[1])
				switch parts[0] {
				case "S":
					res.InFlight = n
				case "A":
					res.LastAck = n
					res.InFlight = -1
				}
			}
		}
		lf.Close()
	}
	// reopen in this process
	var h *run.Handle
	var oerr error
	out := run.Guard(func(o *cs.Outcome) { h, oerr = run.Open(c.Backend, dbdir) })
	if out.Err != "" {
		return &sm.Fail{Property: "C20", Clause: "no-panic-no-hang", Detail: "reopen after crash: " + out.Err}, res
	}
	if oerr != nil {
		return bad("reopen", "the database does not open after the crash: %v  [log %s]", oerr, res.Log), res
	}
	res.Opened = true
	defer h.Close()
	msgAck := verifyState(h, snaps[res.LastAck+1])
	if msgAck == "" {
		return nil, res
	}
	if res.InFlight >= 0 && res.InFlight+1 < len(snaps) {
		if msgIn := verifyState(h, snaps[res.InFlight+1]); msgIn == "" {
			return nil, res
		} else {
			return bad("crash-atomicity", "after the crash (last ACK %d, in flight %d: %s) the state is neither the one before the operation (%s) nor the one after it (%s)",
				res.LastAck, res.InFlight, clipStr(c.Ops[res.InFlight].String(), 300), clipStr(msgAck, 500), clipStr(msgIn, 500)), res
		}
	}
	return bad("durability", "after the crash (last ACK %d, nothing in flight) the state differs from the acknowledged one: %s", res.LastAck, clipStr(msgAck, 700)), res
}

func c05ReopenSession(backend string) (*sm.Session, error) {
	s, err := sm.NewSession("C05", "c05reopen", backend)
	if err != nil {
		return nil, err
	}
	s.Hooks = []sm.Hook{func(s *sm.Session, op *cs.Op, out *cs.Outcome) *sm.Fail {
		if out.Err != "" {
			// a failed operation must not leave anything behind in the handle either: the next
			// successful write would carry it to the disk
			if f := ghostProbe(s, "C05", []string{"A", "B"}); f != nil {
				f.Detail += "  [after the failed " + op.Kind + "]"
				return f
			}
		}
		if op.Kind != "reopen" {
			return nil
		}
		if msg := verifyState(s.H, s.M); msg != "" {
			return &sm.Fail{Property: "C05", Clause: "close-reopen", Detail: "after Close + Open: " + msg}
		}
		return nil
	}}
	return s, nil
}

func init() {
	registerSM("C05", "c05reopen", c05ReopenSession)
	replayers["c05"] = func(raw json.RawMessage) *sm.Fail {
		var c c05Case
		if err := json.Unmarshal(raw, &c); err != nil {
			return &sm.Fail{Property: "C05", Clause: "replay", Detail: err.Error()}
		}
		f, _ := c05Run(&c)
		return f
	}
}

func straceUsable() bool {
	_, err := exec.LookPath("strace")
	return err == nil
}

// countSyscalls runs the worker once under strace and counts the traced syscalls.
func countSyscalls(c *c05Case, syscallName string) int {
	dir := run.NewScratchDir("C05s")
	defer os.RemoveAll(dir)
	dbdir := filepath.Join(dir, "db")
	os.MkdirAll(dbdir, 0o755)
	_, resolved, _, _, rf := c05Reference(c.Ops, c.Backend)
	if rf != nil {
		return 0
	}
	prog := filepath.Join(dir, "program.json")
	pb, _ := json.Marshal(resolved)
	os.WriteFile(prog, pb, 0o644)
	trace := filepath.Join(dir, "trace")
	cmd := exec.Command("strace", "-f", "-qq", "-o", trace, "-e", "trace="+syscallName, workerBin(),
		"-backend", c.Backend, "-dir", dbdir, "-program", prog, "-log", filepath.Join(dir, "log"), "-pin")
	if err := cmd.Run(); err != nil {
		return 0
	}
	b, _ := os.ReadFile(trace)
	return strings.Count(string(b), syscallName+"(")
}

func TestC05(t *testing.T) {
	col := collector("C05", ruleC05)
	t.Run("short-file", func(t *testing.T) {
		check(t, "C05", cases(24, 400), 0, func(rt *rapid.T) {
			c := &c05Short{KeepBytes: rapid.SampledFrom([]int64{0, 1, 100, 4095, 4096, 4097, 8191, 8192, 8200, 12287, 12288, 12300, 16383}).Draw(rt, "keep")}
			if f := runC05Short(c); f != nil {
				violate(rt, "C05", "c05short", c, f)
			}
			col.Case(c.KeepBytes > 0, hashOf(c), func() interface{} { return c }, "short-data-file", "backend:"+run.Bbolt)
		})
	})
	t.Run("reopen", func(t *testing.T) {
		check(t, "C05", cases(600, 8000), ev.Scale(16, 24), func(rt *rapid.T) {
			backend := rapid.SampledFrom([]string{run.Bbolt, run.Bbolt, run.Bbolt, run.BadgerDisk}).Draw(rt, "backend")
			p := c05Profile()
			// also failing operations (duplicate ids, rejected imports) and reads between the writes:
			// whatever a failed operation left in memory must not reach the disk with the next success
			p.BadIds = true
			p.FaultRate = 6 // and operations that fail because a store call failed
			p.Weights = append(p.Weights, sm.W{Kind: "reopen", Weight: 12}, sm.W{Kind: "import", Weight: 6}, sm.W{Kind: "count", Weight: 4}, sm.W{Kind: "find", Weight: 3})
			s, err := c05ReopenSession(backend)
			if err != nil {
				rt.Fatalf("open: %v", err)
			}
			defer s.Close()
			do := func(op cs.Op) {
				if f := s.Do(op); f != nil {
					violate(rt, "C05", "c05reopen", s.Program(f), f)
				}
			}
			p.Seed(rt, s, do)
			rt.Repeat(map[string]func(*rapid.T){
				"step": func(rt *rapid.T) {
					op := p.Draw(rt, s)
					do(op)
					if op.Kind == "reopen" {
						col.Case(len(s.Ops) > 3, hashOf("reopen", stateDigest(s)), func() interface{} {
							return map[string]interface{}{"mode": "clean close/reopen", "history_len": len(s.Ops), "backend": backend}
						}, "source:a-clean-reopen", "backend:"+backend)
					}
				},
			})
		})
	})
	t.Run("crash", func(t *testing.T) {
		maxPoints := ev.Scale(24, 250)
		check(t, "C05", cases(12, 120), 0, func(rt *rapid.T) {
			backend := rapid.SampledFrom([]string{run.Bbolt, run.Bbolt, run.BadgerDisk, run.BadgerDiskSmall}).Draw(rt, "backend")
			p := c05Profile()
			// draw the program against a scratch session (literal ids only)
			s, err := sm.NewSession("C05", "c05gen", run.Bbolt)
			if err != nil {
				rt.Fatalf("open: %v", err)
			}
			do := func(op cs.Op) {
				if f := s.Do(op); f != nil {
					s.Close()
					violate(rt, "C05", "c05reopen", s.Program(f), f)
				}
			}
			p.Seed(rt, s, do)
			nops := rapid.IntRange(3, 16).Draw(rt, "nops")
			oversized := -1
			if backend == run.BadgerDiskSmall {
				// one batch that exceeds the small badger transaction budget: it must be refused as a
				// whole, and a crash inside it must not leave a part of it behind
				oversized = rapid.IntRange(0, nops-1).Draw(rt, "oversized-at")
			}
			for i := 0; i < nops; i++ {
				if i == oversized && s.M.Colls["A"] != nil {
					do(cs.Op{Kind: "geninsert", Coll: "A", Gen: &cs.GenSpec{First: 500000, N: 2000, Pad: 600, Mul: 1, Mod: 50}})
					continue
				}
				if rapid.IntRange(0, 9).Draw(rt, "bigimport") == 0 {
					// an import of a file with a few thousand documents into a new collection: one
					// operation, so a crash anywhere inside it must leave nothing of it behind
					name := "I" + strconv.Itoa(i)
					g := &cs.GenSpec{First: 700000 + 5000*i, N: rapid.SampledFrom([]int{2500, 2500, 1100}).Draw(rt, "impn"), Mul: 1, Mod: 50}
					do(cs.Op{Kind: "genimport", Coll: name, Path: "big-" + name + ".json", Gen: g})
					continue
				}
				if rapid.IntRange(0, 5).Draw(rt, "bigbatch") == 0 && s.M.Colls["A"] != nil {
					g := &cs.GenSpec{First: 1000 + 3000*i, N: rapid.SampledFrom([]int{50, 300, 2000}).Draw(rt, "bign"), Pad: rapid.SampledFrom([]int{0, 100, 600}).Draw(rt, "bigpad"), Mul: 1, Mod: 50}
					do(cs.Op{Kind: "geninsert", Coll: "A", Gen: g})
					continue
				}
				do(p.Draw(rt, s))
			}
			// often end with dropping a populated, indexed collection: a multi-step operation whose
			// intermediate states (documents gone, catalog entry still there) must never survive a crash
			if c := s.M.Colls["A"]; c != nil && len(c.Docs) > 0 && rapid.Bool().Draw(rt, "final-drop") {
				if len(c.Indexes) == 0 {
					do(cs.Op{Kind: "createindex", Coll: "A", Field: "u"})
				}
				do(cs.Op{Kind: "dropcoll", Coll: "A"})
			}
			ops := append([]cs.Op{}, s.Ops...)
			s.Close()
			_, _, calls, traces, rf := c05Reference(ops, backend)
			if rf != nil {
				violate(rt, "C05", "c05reopen", &sm.Program{Property: "C05", Profile: "c05reopen", Backend: run.Bbolt, Ops: ops, Fail: rf}, rf)
			}
			// enumerate crash points
			type point struct {
				op    int
				call  int64
				after bool
			}
			var points []point
			for i := range ops {
				for k := int64(1); k <= calls[i]; k++ {
					points = append(points, point{i, k, false})
					if traces[i][k-1] == run.KCommit {
						points = append(points, point{i, k, true})
					}
				}
			}
			chosen := points
			if len(points) > maxPoints {
				// stratified by operation (a uniform draw over all calls would be dominated by the large
				// batches): pick an operation, then one of its calls
				chosen = nil
				byOp := map[int][]point{}
				for _, pt := range points {
					byOp[pt.op] = append(byOp[pt.op], pt)
				}
				seen := map[point]bool{}
				for j := 0; j < maxPoints; j++ {
					oi := rapid.IntRange(0, len(ops)-1).Draw(rt, "point-op")
					if rapid.IntRange(0, 3).Draw(rt, "point-late") == 0 {
						oi = len(ops) - 1 - rapid.IntRange(0, 1).Draw(rt, "point-last") // the last operations (the final drop)
						if oi < 0 {
							oi = 0
						}
					}
					cand := byOp[oi]
					if len(cand) == 0 {
						continue
					}
					pt := cand[rapid.IntRange(0, len(cand)-1).Draw(rt, "point-call")]
					if rapid.IntRange(0, 2).Draw(rt, "point-tail") == 0 {
						pt = cand[len(cand)-1-rapid.IntRange(0, min(3, len(cand)-1)).Draw(rt, "point-tailk")] // near the end: commit and what precedes it
					}
					if !seen[pt] {
						seen[pt] = true
						chosen = append(chosen, pt)
					}
				}
			}
			runCase := func(c *c05Case, classes ...string) {
				f, res := c05Run(c)
				if f != nil && f.Clause == "harness" {
					// the machinery, not clover: strace failing to attach / listen on a loaded machine, a
					// worker that could not be started. One more try; a tracer problem that persists makes
					// the case inconclusive (counted), never a violation
					f, res = c05Run(c)
					if f != nil && f.Clause == "harness" && (strings.Contains(f.Detail, "strace") || strings.Contains(f.Detail, "ptrace") || strings.Contains(f.Detail, "cannot start worker")) {
						col.Add("inconclusive_cases_tracer_or_worker_start", 1)
						return
					}
				}
				if f != nil {
					violate(rt, "C05", "c05", c, f)
				}
				nt := false
				cl := append([]string{"backend:" + backend}, classes...)
				if res != nil {
					if res.InFlight >= 0 {
						nt = true
						cl = append(cl, "killed-in-flight", "inflight-op:"+ops[res.InFlight].Kind)
					}
					if !res.Killed {
						cl = append(cl, "worker-finished")
					}
				}
				col.Case(nt, hashOf(c), func() interface{} {
					return map[string]interface{}{"backend": c.Backend, "mode": c.Mode, "killop": c.KillOp, "killcall": c.KillCall, "after_commit": c.After,
						"syscall": c.Syscall, "when": c.When, "delay_us": c.DelayUS, "program_len": len(c.Ops), "log": res.Log}
				}, cl...)
			}
			for _, pt := range chosen {
				c := &c05Case{Backend: backend, Ops: ops, Mode: "selfkill", KillOp: pt.op, KillCall: pt.call, After: pt.after}
				cls := []string{"source:b-selfkill", "failing:" + run.KindNames[traces[pt.op][pt.call-1]]}
				for _, kind := range traces[pt.op][:pt.call-1] {
					if kind == run.KSet {
						cls = append(cls, "abandoned-after-set")
						break
					}
				}
				if pt.after {
					cls = append(cls, "after-store-commit")
				}
				runCase(c, cls...)
			}
			if backend == run.Bbolt && straceUsable() {
				for _, sc := range []string{"pwrite64", "fdatasync"} {
					base := &c05Case{Backend: backend, Ops: ops, Mode: "strace", Syscall: sc}
					total := countSyscalls(base, sc)
					col.Add("strace_"+sc+"_calls_seen", total)
					nsel := ev.Scale(4, 60)
					for j := 0; j < nsel && total > 0; j++ {
						c := *base
						c.When = rapid.IntRange(1, total).Draw(rt, "when")
						runCase(&c, "source:c-strace-"+sc)
					}
					// the very first writes / syncs happen while Open initialises the file: a kill there
					// must leave a directory that opens (empty) again
					for w := 1; w <= 3 && w <= total; w++ {
						c := *base
						c.When = w
						runCase(&c, "source:c-strace-"+sc, "kill-during-open")
					}
				}
			}
			for j := 0; j < ev.Scale(3, 12); j++ {
				c := &c05Case{Backend: backend, Ops: ops, Mode: "random", DelayUS: rapid.IntRange(0, 60000).Draw(rt, "delay")}
				runCase(c, "source:d-random-kill")
			}
		})
	})
}

// c05Short: the data file of a bbolt database cut to its first KeepBytes bytes - what a process
// killed in the middle of the very first Open leaves behind (a fatal signal can end the
// initial write of the first pages early; observed in a thorough run). No operation was ever
// acknowledged, so the directory must open again, empty. The reopen runs in a child process
// first: on a file with valid meta pages but missing data pages bbolt faults with SIGBUS,
// which no recover() can turn into a verdict.
type c05Short struct {
	KeepBytes int64 `json:"keepbytes"`
	Complete  bool  `json:"complete"` // the file was cut after the root bucket had been committed too
}

func runC05Short(c *c05Short) *sm.Fail {
	bad := func(clause, f string, a ...interface{}) *sm.Fail {
		return &sm.Fail{Property: "C05", Clause: clause, Detail: fmt.Sprintf("[data file cut to %d bytes] ", c.KeepBytes) + fmt.Sprintf(f, a...)}
	}
	dir := run.NewScratchDir("C05k")
	defer os.RemoveAll(dir)
	dbdir := filepath.Join(dir, "db")
	os.MkdirAll(dbdir, 0o755)
	h, err := run.Open(run.Bbolt, dbdir)
	if err != nil {
		return bad("harness", "open: %v", err)
	}
	h.Close()
	files, _ := filepath.Glob(filepath.Join(dbdir, "*"))
	if len(files) != 1 {
		return bad("harness", "expected one data file, found %v", files)
	}
	if err := os.Truncate(files[0], c.KeepBytes); err != nil {
		return bad("harness", "truncate: %v", err)
	}
	prog := filepath.Join(dir, "program.json")
	os.WriteFile(prog, []byte("[]"), 0o644)
	logPath := filepath.Join(dir, "log")
	cmd := exec.Command(workerBin(), "-backend", run.Bbolt, "-dir", dbdir, "-program", prog, "-log", logPath)
	var stderr strings.Builder
	cmd.Stderr = &stderr
	werr := cmd.Run()
	lg, _ := os.ReadFile(logPath)
	if werr != nil || !strings.Contains(string(lg), "O") {
		msg := stderr.String()
		if i := strings.Index(msg, "\ngoroutine "); i > 0 {
			msg = msg[:i]
		}
		return bad("reopen", "the database does not open after a kill during its first Open: %v %s", werr, clipStr(msg, 400))
	}
	h, err = run.Open(run.Bbolt, dbdir)
	if err != nil {
		return bad("reopen", "the database does not open: %v", err)
	}
	defer h.Close()
	if msg := verifyState(h, model.New()); msg != "" {
		return bad("durability", "nothing was ever written, but after reopening: %s", msg)
	}
	return nil
}

func init() {
	replayers["c05short"] = func(raw json.RawMessage) *sm.Fail {
		var c c05Short
		if err := json.Unmarshal(raw, &c); err != nil {
			return &sm.Fail{Property: "C05", Clause: "replay", Detail: err.Error()}
		}
		return runC05Short(&c)
	}
}
