package checks

import (
	"encoding/json"
	"flag"
	"fmt"
	"hash/fnv"
	"os"
	"strconv"
	"sync"
	"testing"
	"time"

	"pgregory.net/rapid"

	"verif/harness/cs"
	"verif/harness/ev"
	"verif/harness/sm"
)

func nshards() int {
	n, _ := strconv.Atoi(os.Getenv("VERIF_NSHARDS"))
	if n < 1 {
		n = 1
	}
	return n
}

// seedFor derives the rapid seed from VERIF_SEED, the property and the shard; never 0.
func seedFor(property string) uint64 {
	h := fnv.New64a()
	fmt.Fprintf(h, "%d/%s/%d", ev.Seed(), property, ev.Shard())
	s := h.Sum64()
	if s == 0 {
		s = 1
	}
	return s
}

// cases returns this shard's share of the tier's case count.
func cases(quick, thorough int) int {
	n := ev.Scale(quick, thorough)
	if s := os.Getenv("VERIF_CASES_PCT"); s != "" { // development aid: scale all budgets
		if pct, err := strconv.Atoi(s); err == nil && pct > 0 {
			n = n * pct / 100
		}
	}
	n = (n + nshards() - 1) / nshards()
	if n < 1 {
		n = 1
	}
	return n
}

// check runs prop under rapid with the tier's budget and a seed that is a pure function
// of VERIF_SEED.
func check(t *testing.T, property string, n, steps int, prop func(*rapid.T)) {
	t.Helper()
	flag.Set("rapid.checks", strconv.Itoa(n))
	flag.Set("rapid.seed", strconv.FormatUint(seedFor(property), 10))
	flag.Set("rapid.nofailfile", "true")
	if steps > 0 {
		flag.Set("rapid.steps", strconv.Itoa(steps))
	}
	if os.Getenv("VERIF_SHRINKTIME") != "" {
		flag.Set("rapid.shrinktime", os.Getenv("VERIF_SHRINKTIME"))
	}
	rapid.Check(t, prop)
}

var (
	collMu     sync.Mutex
	collectors = map[string]*ev.Collector{}
)

// collector returns the (process-wide) evidence collector of a property.
func collector(property, rule string) *ev.Collector {
	collMu.Lock()
	defer collMu.Unlock()
	c := collectors[property]
	if c == nil {
		c = ev.New(property, rule)
		collectors[property] = c
	}
	return c
}

func TestMain(m *testing.M) {
	flag.Parse()
	code := m.Run()
	minimizeAll()
	collMu.Lock()
	for _, c := range collectors {
		c.Write()
	}
	collMu.Unlock()
	os.Exit(code)
}

// violation saves the replay file, records the violation and fails the rapid case.
// Replays are plain JSON: {"kind": <replayer>, "case": …, "fail": …}.
type replayFile struct {
	Kind string          `json:"kind"`
	Case json.RawMessage `json:"case"`
	Fail *sm.Fail        `json:"fail,omitempty"`
}

func saveReplay(property, kind string, cse interface{}, f *sm.Fail) string {
	path := ev.ReplayPath(property, kind)
	raw, _ := json.Marshal(cse)
	b, _ := json.MarshalIndent(replayFile{Kind: kind, Case: raw, Fail: f}, "", " ")
	os.WriteFile(path, b, 0o644)
	return path
}

type fataler interface {
	Fatalf(format string, args ...any)
}

// violate reports f (found while checking property `owner`) and aborts the case.
func violate(t fataler, owner, kind string, cse interface{}, f *sm.Fail) {
	col := collector(owner, "")
	path := saveReplay(owner, kind, cse, f)
	col.Violation(ev.Violation{Property: f.Property, Clause: f.Clause, Detail: f.Detail, Replay: path})
	t.Fatalf("VIOLATION-CANDIDATE property=%s clause=%s replay=%s\n%s", f.Property, f.Clause, path, f.Detail)
}

// replayers maps a replay kind to the function re-running a saved case without rapid.
var replayers = map[string]func(raw json.RawMessage) *sm.Fail{}

// TestReplay re-runs the file named by VERIF_REPLAY and prints the verdict.
func TestReplay(t *testing.T) {
	path := os.Getenv("VERIF_REPLAY")
	if path == "" {
		t.Skip("VERIF_REPLAY not set")
	}
	b, err := os.ReadFile(path)
	if err != nil {
		t.Fatalf("cannot read %s: %v", path, err)
	}
	var rf replayFile
	if err := json.Unmarshal(b, &rf); err != nil {
		t.Fatalf("cannot parse %s: %v", path, err)
	}
	r := replayers[rf.Kind]
	if r == nil {
		t.Fatalf("no replayer for kind %q", rf.Kind)
	}
	if f := r(rf.Case); f != nil {
		fmt.Printf("REPLAY-VIOLATION property=%s clause=%s replay=%s\n%s\n", f.Property, f.Clause, path, f.Detail)
		t.Fail()
		return
	}
	fmt.Printf("REPLAY-OK %s\n", path)
}

// smKinds: session makers of the state-machine replay kinds (used for minimisation).
var smKinds = map[string]func(backend string) (*sm.Session, error){}

func runProgram(p *sm.Program, mk func(backend string) (*sm.Session, error)) *sm.Fail {
	s, err := mk(p.Backend)
	if err != nil {
		return &sm.Fail{Property: p.Property, Clause: "replay", Detail: "cannot open: " + err.Error()}
	}
	defer s.Close()
	for _, op := range p.Ops {
		if f := s.Do(op); f != nil {
			return f
		}
	}
	return nil
}

// minimizeAll shrinks every state-machine replay recorded by this process by delta
// debugging (rapid's own shrinking works on the random stream and leaves long histories).
func minimizeAll() {
	if os.Getenv("VERIF_REPLAY") != "" || os.Getenv("VERIF_NOMIN") != "" || isFuzzWorker() {
		return
	}
	collMu.Lock()
	cols := []*ev.Collector{}
	for _, c := range collectors {
		cols = append(cols, c)
	}
	collMu.Unlock()
	for _, c := range cols {
		for _, v := range c.Violations() {
			b, err := os.ReadFile(v.Replay)
			if err != nil {
				continue
			}
			var rf replayFile
			if json.Unmarshal(b, &rf) != nil || smKinds[rf.Kind] == nil || rf.Fail == nil {
				continue
			}
			var p sm.Program
			if json.Unmarshal(rf.Case, &p) != nil {
				continue
			}
			p.Fail = rf.Fail
			mk := smKinds[rf.Kind]
			// only minimise failures that reproduce
			if f := runProgram(&p, mk); f == nil {
				continue
			}
			min := sm.Minimize(&p, 45*time.Second, func(q *sm.Program) *sm.Fail { return runProgram(q, mk) })
			raw, _ := json.Marshal(min)
			out, _ := json.MarshalIndent(replayFile{Kind: rf.Kind, Case: raw, Fail: min.Fail}, "", " ")
			os.WriteFile(v.Replay, out, 0o644)
			c.Violation(ev.Violation{Property: min.Fail.Property, Clause: min.Fail.Clause, Detail: min.Fail.Detail, Replay: v.Replay})
		}
	}
}

// smReplayer builds the replayer of a state-machine profile.
func smReplayer(property string, mk func(backend string) (*sm.Session, error)) func(raw json.RawMessage) *sm.Fail {
	return func(raw json.RawMessage) *sm.Fail {
		var p sm.Program
		if err := json.Unmarshal(raw, &p); err != nil {
			return &sm.Fail{Property: property, Clause: "replay", Detail: "bad program: " + err.Error()}
		}
		s, err := mk(p.Backend)
		if err != nil {
			return &sm.Fail{Property: property, Clause: "replay", Detail: "cannot open: " + err.Error()}
		}
		defer s.Close()
		for _, op := range p.Ops {
			if f := s.Do(op); f != nil {
				return f
			}
		}
		return nil
	}
}

func hashOf(xs ...interface{}) uint64 { return cs.Hash(xs) }

func registerSM(property, kind string, mk func(backend string) (*sm.Session, error)) {
	smKinds[kind] = mk
	replayers[kind] = smReplayer(property, mk)
}

func writeFile(path, content string) { os.WriteFile(path, []byte(content), 0o644) }
