package checks

import (
	"fmt"
	"math"
	"testing"

	"pgregory.net/rapid"

	"verif/harness/cs"
	"verif/harness/ev"
	"verif/harness/gen"
	"verif/harness/model"
	"verif/harness/run"
	"verif/harness/sm"
)

const ruleC08 = "collections of 0-40 documents whose sort fields x, y, xy take values from a per-case palette of at most 6 mixed-type values including nil, plus absent (ties guaranteed); index on the sort field, the filter field, both or none, created before or after the data; bbolt and badger. Queries: 0-3 sort options with directions from {-7,-1,0,1,5}, Sort() without options, criteria present or absent, skip/limit from {negative, MinInt, 0, 1, 2, size/2, size-1, size, size+3, MaxInt-3, MaxInt}. Oracle: the result must be the window [skip, skip+limit) of some correctly sorted order of the matching documents (tie-aware rule of DESIGN.md section 4, both admitted readings of absent-vs-nil), ids distinct, documents equal to the model; unsorted windows by cardinality, distinctness and membership. An evaluation is one checked query; non-trivial when the sort keys of the matching documents contain a tie, two type ranks or an absent field, and the window cuts inside the result; distinct = distinct (query, contents, index set)."

func c08Session(backend string) (*sm.Session, error) { return sm.NewSession("C08", "c08", backend) }

func init() { registerSM("C08", "c08", c08Session) }

func TestC08(t *testing.T) {
	check(t, "C08", cases(9000, 250000), 0, propC08(collector("C08", ruleC08)))
}

func propC08(col *ev.Collector) func(rt *rapid.T) {
	backends := []string{run.Bbolt, run.Bbolt, run.BadgerMem}
	fields := []string{"x", "y", "xy"}
	return func(rt *rapid.T) {
		backend := rapid.SampledFrom(backends).Draw(rt, "backend")
		s, err := c08Session(backend)
		if err != nil {
			rt.Fatalf("open: %v", err)
		}
		defer s.Close()
		do := func(op cs.Op) {
			if f := s.Do(op); f != nil {
				violate(rt, "C08", "c08", s.Program(f), f)
			}
		}
		nIdx := rapid.SampledFrom([]int{0, 1, 1, 2, 3}).Draw(rt, "nindexes")
		wide := nIdx == 0 && rapid.IntRange(0, 2).Draw(rt, "wide") == 0
		vcfg := gen.ValCfg{MaxDepth: 1, Wide: wide}
		npal := rapid.IntRange(1, 6).Draw(rt, "npalette")
		palette := make([]interface{}, npal)
		for i := range palette {
			palette[i] = gen.Value(vcfg, 1).Draw(rt, "palette")
		}
		n := rapid.SampledFrom([]int{0, 1, 2, 3, 5, 8, 12, 20, 40}).Draw(rt, "ndocs")
		docs := make([]cs.Doc, n)
		for i := range docs {
			d := cs.Doc{"_id": gen.Id(i), "u": int64(i)}
			for _, f := range fields {
				if rapid.IntRange(0, 4).Draw(rt, "absent") == 0 {
					continue
				}
				d[f] = cs.Clone(rapid.SampledFrom(palette).Draw(rt, "val"))
			}
			// the nested sort key n.a: n is an object holding a, an object without it, a scalar or
			// absent; a top-level field a is a decoy the path lookup must not fall back to
			switch rapid.IntRange(0, 5).Draw(rt, "nshape") {
			case 0, 1:
				d["n"] = map[string]interface{}{"a": cs.Clone(rapid.SampledFrom(palette).Draw(rt, "nval"))}
			case 2:
				d["n"] = map[string]interface{}{"b": int64(1)}
			case 3:
				d["n"] = rapid.SampledFrom([]interface{}{int64(7), "s", nil, []interface{}{}}).Draw(rt, "nscalar")
			}
			if _, isObj := d["n"].(map[string]interface{}); !isObj && rapid.Bool().Draw(rt, "decoy") {
				d["a"] = cs.Clone(rapid.SampledFrom(palette).Draw(rt, "decoyval"))
			}
			docs[i] = d
		}
		ixFields := []string{}
		for i := 0; i < nIdx; i++ {
			ixFields = append(ixFields, rapid.SampledFrom([]string{"x", "y", "xy", "_id", "u", "n.a"}).Draw(rt, "ixfield"))
		}
		ixFirst := rapid.Bool().Draw(rt, "index-first")
		do(cs.Op{Kind: "createcoll", Coll: "A"})
		mkIdx := func() {
			seen := map[string]bool{}
			for _, f := range ixFields {
				if !seen[f] {
					do(cs.Op{Kind: "createindex", Coll: "A", Field: f})
					seen[f] = true
				}
			}
		}
		if ixFirst {
			mkIdx()
		}
		// insert in two batches so that index order and insertion order differ
		cut := 0
		if n > 0 {
			cut = rapid.IntRange(0, n).Draw(rt, "cut")
		}
		do(cs.Op{Kind: "insert", Coll: "A", Docs: docs[cut:]})
		do(cs.Op{Kind: "insert", Coll: "A", Docs: docs[:cut]})
		if !ixFirst {
			mkIdx()
		}
		env := gen.CritEnv{Val: vcfg, Fields: []string{"x", "y", "xy", "u", "n.a"}, Hot: ixFields, Values: palette, MaxDepth: 2, GoKinds: true}
		nq := rapid.IntRange(3, 8).Draw(rt, "nqueries")
		for qi := 0; qi < nq; qi++ {
			q := &cs.Query{Coll: "A"}
			if rapid.IntRange(0, 2).Draw(rt, "hascrit") != 0 {
				q.Crit = env.Crit(rt, rapid.IntRange(1, 2).Draw(rt, "depth"))
			}
			if rapid.IntRange(0, 5).Draw(rt, "sorted") != 0 {
				q.SortSet = true
				ns := rapid.SampledFrom([]int{0, 1, 1, 1, 2, 2, 3}).Draw(rt, "nsort")
				for i := 0; i < ns; i++ {
					f := rapid.SampledFrom([]string{"x", "y", "xy", "u", "_id", "zz", "n.a", "n.a"}).Draw(rt, "sortfield")
					if len(ixFields) > 0 && rapid.IntRange(0, 2).Draw(rt, "sort-on-index") == 0 {
						f = rapid.SampledFrom(ixFields).Draw(rt, "sortixfield")
					}
					q.Sort = append(q.Sort, cs.SortOpt{Field: f, Dir: rapid.SampledFrom([]int{-7, -1, 0, 1, 5, -1, 1, math.MinInt64, math.MaxInt64, -(1 << 62), 1 << 61, math.MinInt32}).Draw(rt, "dir")})
				}
			}
			if rapid.IntRange(0, 2).Draw(rt, "hasskip") != 0 {
				v := rapid.SampledFrom([]int{-3, 0, 1, 2, n - 1, n, n + 3, n / 2, math.MaxInt, math.MinInt}).Draw(rt, "skip")
				q.Skip = &v
			}
			if rapid.IntRange(0, 2).Draw(rt, "haslimit") != 0 {
				v := rapid.SampledFrom([]int{-1, 0, 1, 2, n, n + 3, n / 2, math.MaxInt, math.MaxInt - 3, math.MinInt}).Draw(rt, "limit")
				q.Limit = &v
			}
			kind := "find"
			op := cs.Op{Kind: kind, Q: q}
			if rapid.IntRange(0, 5).Draw(rt, "foreach") == 0 {
				op.Kind = "foreach"
			}
			if rapid.IntRange(0, 9).Draw(rt, "with-fault") == 0 {
				// a failing store call in the middle of the scan must surface as an error, not as a
				// shifted window
				fo := op
				fo.FaultAt = int64(rapid.IntRange(1, 30).Draw(rt, "fault-at"))
				do(fo)
			}
			do(op)

			// classification
			c := s.M.Colls["A"]
			match := model.Matching(c.Docs, q.Crit)
			opts := model.NormSort(q)
			skip, limit := model.Window(q)
			wl := model.WindowLen(len(match), skip, limit)
			tie, mixed, absent := false, false, false
			if len(opts) > 0 {
				ranks := map[int]bool{}
				for i, a := range match {
					for _, o := range opts {
						v, ok := model.Lookup(a, o.Field)
						if !ok {
							absent = true
						}
						ranks[model.Rank(v)] = true
					}
					for _, b := range match[i+1:] {
						if model.KeyCmp(a, b, opts, false) == 0 {
							tie = true
						}
					}
				}
				mixed = len(ranks) > 1
			}
			cuts := wl > 0 && wl < len(match)
			nt := len(opts) > 0 && (tie || mixed || absent) && cuts
			cl := []string{"backend:" + backend, fmt.Sprintf("nsort:%d", len(opts)), fmt.Sprintf("indexes:%d", len(c.Indexes))}
			if len(opts) == 0 {
				cl = append(cl, "unsorted")
				if cuts {
					cl = append(cl, "unsorted-window-cuts")
				}
			}
			for _, o := range opts {
				if o.Dir < 0 {
					cl = append(cl, "descending-key")
				}
				if c.Indexes[o.Field] && len(opts) == 1 {
					cl = append(cl, "index-on-single-sort-field")
					if o.Dir < 0 {
						cl = append(cl, "reverse-index-scan")
					}
				}
			}
			if tie {
				cl = append(cl, "ties")
			}
			if mixed {
				cl = append(cl, "mixed-types")
			}
			if absent {
				cl = append(cl, "absent-key")
			}
			if cuts {
				cl = append(cl, "window-cuts")
			}
			if q.SortSet && len(q.Sort) == 0 {
				cl = append(cl, "Sort()-without-options")
			}
			if wide {
				cl = append(cl, "wide-integers")
			}
			col.Case(nt, hashOf(q, docs, ixFields), func() interface{} {
				return map[string]interface{}{"query": q.String(), "ndocs": n, "palette": cs.Show(palette), "indexes": ixFields, "matching": len(match), "window_len": wl}
			}, cl...)
		}
		if ev.Thorough() {
			col.Add("collections", 1)
		}
	}
}
