package checks

import (
	"testing"

	"pgregory.net/rapid"

	"verif/harness/cs"
	"verif/harness/gen"
	"verif/harness/run"
	"verif/harness/sm"
)

const ruleC19 = "model-based state machine over collections of JSON-representable documents (numbers within 2^53, valid UTF-8, nested maps/slices, times from 1970 with whole-minute zone offsets, occasionally a top-level field name containing a dot), with and without indexes on the source: ExportCollection followed (immediately or after further writes) by ImportCollection of that file under a new or an existing name, imports of generated files (well-formed, with duplicate or malformed ids, documents without _id) and of ill-formed, wrong-shaped, truncated, empty or missing files, exports of missing collections or to unwritable paths. Oracle: the imported collection holds exactly the JSON image of the source at export time (same count, _ids and field sets, numbers numerically equal, times as RFC 3339 text); after every step - in particular after every failed import/export - every collection equals the model (contents, index list, Count) and the raw key space passes the audit, so sources and bystanders are untouched. An evaluation is one export or import step; non-trivial when the documents involved contain nesting, a time or a number, or the step is a failure path; distinct = distinct (operation, model state). A second part races an ImportCollection with concurrent creators of the same name (schedule perturbed at every store call): at most one of them may succeed and the final state must be exactly the winner's."

func c19Profile() *sm.Profile {
	return &sm.Profile{
		Name:        "c19",
		FaultRate:   12,
		Colls:       []string{"src", "dst", "dst2", "other"},
		IndexFields: []string{"x", "y", "n.a", "t"},
		Doc:         gen.DocCfg{Val: gen.ValCfg{MaxDepth: 2, JSONSafe: true, MinuteTZ: true}, PAbsent: 4, DottedKey: true},
		IdPool:      16,
		MaxDocs:     8,
		BadIds:      true,
		GenIds:      true,
		Crit:        gen.CritEnv{Val: gen.ValCfg{MaxDepth: 0, JSONSafe: true}, MaxDepth: 2},
		Weights: []sm.W{{Kind: "createcoll", Weight: 3}, {Kind: "insert", Weight: 10}, {Kind: "updatebyid", Weight: 4}, {Kind: "deletebyid", Weight: 2},
			{Kind: "createindex", Weight: 4}, {Kind: "dropcoll", Weight: 3}, {Kind: "export", Weight: 14}, {Kind: "reimport", Weight: 18},
			{Kind: "import", Weight: 10}, {Kind: "bigimport", Weight: 1}},
	}
}

func c19Session(backend string) (*sm.Session, error) {
	s, err := sm.NewSession("C19", "c19", backend)
	if err != nil {
		return nil, err
	}
	s.Hooks = []sm.Hook{
		func(s *sm.Session, op *cs.Op, out *cs.Outcome) *sm.Fail {
			if op.Kind != "export" && op.Kind != "import" {
				return nil
			}
			for _, n := range s.M.CollNames() {
				if f := collEquals(s, "C19", "collections-untouched", n, s.M.Colls[n]); f != nil {
					f.Detail += "  [after " + op.Kind + " " + op.Coll + " err=" + out.Err + "]"
					return f
				}
			}
			if f := ghostProbe(s, "C19", []string{"src", "dst", "dst2", "other"}); f != nil {
				f.Detail += "  [after " + op.Kind + " " + op.Coll + " err=" + out.Err + "]"
				return f
			}
			if msg := run.Audit(s.H.Raw, s.M); msg != "" {
				return &sm.Fail{Property: "C19", Clause: "raw-audit", Detail: msg + "  [after " + op.Kind + " " + op.Coll + " err=" + out.Err + "]"}
			}
			return nil
		},
	}
	return s, nil
}

func init() { registerSM("C19", "c19", c19Session) }

func TestC19(t *testing.T) {
	t.Run("race", func(t *testing.T) {
		// importing under a name that another client creates at the same moment must fail without
		// altering that collection (or win cleanly): at most one creator, consistent final state
		col := collector("C19", ruleC19)
		check(t, "C19", cases(150, 4000), 0, func(rt *rapid.T) {
			c := &c13RaceCase{Backend: rapid.SampledFrom(raceBackends).Draw(rt, "backend")}
			for i := rapid.IntRange(1, 5).Draw(rt, "ndocs"); i > 0; i-- {
				c.Docs = append(c.Docs, cs.Doc{"_id": gen.Id(len(c.Docs)), "x": int64(len(c.Docs) % 3), "u": int64(len(c.Docs))})
			}
			c.Racers = []string{"import"}
			for i := rapid.IntRange(1, 3).Draw(rt, "nracers"); i > 0; i-- {
				c.Racers = append(c.Racers, rapid.SampledFrom([]string{"createcoll", "import", "createbyquery"}).Draw(rt, "racer"))
			}
			for i := rapid.IntRange(0, 4).Draw(rt, "nfile"); i > 0; i-- {
				c.FileIds = append(c.FileIds, len(c.FileIds))
			}
			c.Bits = rapid.SliceOfN(rapid.Byte(), 8, 48).Draw(rt, "schedule-bits")
			if f := runCatalogRace(c, "C19"); f != nil {
				violate(rt, "C19", "c13race", c, f)
			}
			col.Case(true, hashOf(c), func() interface{} { return c }, "import-race", "backend:"+c.Backend)
		})
	})
	t.Run("histories", testC19Histories)
	t.Run("big-roundtrip", func(t *testing.T) {
		// a collection of more than a thousand documents is exported, dropped and imported again
		// under its own, now free name (and under a second one): the import must succeed and
		// reproduce it, which it cannot if the drop left anything behind
		col := collector("C19", ruleC19)
		check(t, "C19", cases(16, 400), 0, func(rt *rapid.T) {
			backend := rapid.SampledFrom([]string{run.Bbolt, run.Bbolt, run.BadgerMem}).Draw(rt, "backend")
			s, err := c19Session(backend)
			if err != nil {
				rt.Fatalf("open: %v", err)
			}
			defer s.Close()
			do := func(op cs.Op) {
				if f := s.Do(op); f != nil {
					violate(rt, "C19", "c19", s.Program(f), f)
				}
			}
			n := rapid.SampledFrom([]int{1025, 1100, 2100, 2500, 3100}).Draw(rt, "n")
			do(cs.Op{Kind: "createcoll", Coll: "src"})
			if rapid.Bool().Draw(rt, "indexed") {
				do(cs.Op{Kind: "createindex", Coll: "src", Field: "x"})
			}
			do(cs.Op{Kind: "geninsert", Coll: "src", Gen: &cs.GenSpec{First: 0, N: n, Mul: 3, Add: 1, Mod: 50}})
			do(cs.Op{Kind: "export", Coll: "src", Path: "big.json"})
			do(cs.Op{Kind: "dropcoll", Coll: "src"})
			do(cs.Op{Kind: "import", Coll: "src", Path: "big.json", Note: "fromexport"})
			do(cs.Op{Kind: "import", Coll: "dst", Path: "big.json", Note: "fromexport"})
			do(cs.Op{Kind: "count", Q: &cs.Query{Coll: "src"}})
			do(cs.Op{Kind: "close"})
			col.Case(true, hashOf(n, backend), func() interface{} {
				return map[string]interface{}{"mode": "big round trip", "documents": n, "backend": backend}
			}, "big-roundtrip", "backend:"+backend)
		})
	})
}

func testC19Histories(t *testing.T) {
	(&smCheck{property: "C19", kind: "c19", rule: ruleC19, quick: 1500, thorough: 60000, stepsQ: 16, stepsT: 24,
		backends: []string{run.Bbolt, run.Bbolt, run.BadgerMem},
		profile: func(rt *rapid.T) *sm.Profile {
			p := c19Profile()
			p.Colls = []string{"src", "dst", "dst2", "other"}
			return p
		},
		session: c19Session,
		classify: func(s *sm.Session, p *sm.Profile, op cs.Op) (bool, []string) {
			if op.Kind != "export" && op.Kind != "import" {
				return false, []string{"setup-step"}
			}
			var cl []string
			failed := s.Last != nil && s.Last.Err != ""
			if failed {
				cl = append(cl, "failure-path")
			}
			if op.Note != "" {
				cl = append(cl, "note:"+op.Note)
			}
			rich := false
			docs := op.Docs
			if op.Kind == "export" || op.Note == "fromexport" {
				name := op.Coll
				if c := s.M.Colls[name]; c != nil {
					for _, id := range c.Ids() {
						docs = append(docs, c.Docs[id])
					}
					if len(c.Indexes) > 0 && op.Kind == "export" {
						cl = append(cl, "indexed-source")
					}
				}
			}
			for _, d := range docs {
				for k, v := range d {
					if k == "_id" {
						continue
					}
					switch v.(type) {
					case nil, bool, string:
					default:
						rich = true
					}
				}
			}
			if rich {
				cl = append(cl, "rich-values")
			}
			return rich || failed, cl
		}}).run(t)
}
