package checks

import (
	"fmt"
	"testing"

	"pgregory.net/rapid"

	"verif/harness/cs"
	"verif/harness/ev"
	"verif/harness/gen"
	"verif/harness/run"
	"verif/harness/sm"
)

const ruleC06 = "model-based state machine with a failure-rich mix (deletes of absent ids, duplicate/malformed inserts, invalid updates, drop + re-create of collections and indexes under the same name, prefix-related index fields x/xy and n/n.a, in-place updaters). After every step the complete raw key space of the undecorated store is compared with the key set derived from the model (metadata with exact Size and index list, one record per live document, exactly one index entry per document and index under the current value - key bytes from index.Add on a recording transaction -, no other key), Count(no criteria) with len(FindAll), and one index-ordered scan per index. An evaluation is one audited step; non-trivial when the history already contains a delete, drop or failed write while at least one index exists; distinct = distinct (operation, model state). A second part runs concurrent programs (deletes of the same ids, inserts, bulk deletes, index creation/drop racing on one handle, schedule perturbed at every store call) followed by a sequential epilogue of Count, full and index-ordered scans and catalogs; the whole history must be linearizable, so the quiescent state after the race has consistent counters, documents and index entries."

func c06Profile() *sm.Profile {
	return &sm.Profile{
		Name:        "c06",
		FaultRate:   12,
		Colls:       []string{"A", "AB", "a"},
		IndexFields: []string{"x", "xy", "n", "n.a", "s", "t", "u", "_id", "y"},
		Doc:         gen.DocCfg{Val: gen.ValCfg{MaxDepth: 1, NonUTF8: true}, PAbsent: 4, ExpiresAt: true},
		IdPool:      20,
		MaxDocs:     12,
		BadIds:      true,
		BadDocs:     true,
		Crit:        gen.CritEnv{Val: gen.ValCfg{MaxDepth: 1}, MaxDepth: 3},
		Weights: []sm.W{{Kind: "createcoll", Weight: 5}, {Kind: "insert", Weight: 14}, {Kind: "save", Weight: 4}, {Kind: "replace", Weight: 5},
			{Kind: "updatebyid", Weight: 9}, {Kind: "update", Weight: 6}, {Kind: "updatefunc", Weight: 7}, {Kind: "delete", Weight: 6},
			{Kind: "deletebyid", Weight: 10}, {Kind: "createindex", Weight: 10}, {Kind: "dropindex", Weight: 7}, {Kind: "dropcoll", Weight: 4},
			{Kind: "createbyquery", Weight: 2}},
	}
}

// auditHook is the C06 invariant.
func auditHook(s *sm.Session, op *cs.Op, out *cs.Outcome) *sm.Fail {
	if s.M.Closed {
		return nil
	}
	if msg := run.Audit(s.H.Raw, s.M); msg != "" {
		return &sm.Fail{Property: "C06", Clause: "raw-audit", Detail: msg + "  [after " + op.String() + "]"}
	}
	return nil
}

// countHook: Count without criteria equals the number of documents a full scan returns,
// and every index-ordered scan returns every document once.
func countHook(s *sm.Session, op *cs.Op, out *cs.Outcome) *sm.Fail {
	if s.M.Closed {
		return nil
	}
	for _, name := range s.M.CollNames() {
		c := s.M.Colls[name]
		cnt := run.Exec(s.H.DB, &cs.Op{Kind: "count", Q: &cs.Query{Coll: name}})
		all := run.Exec(s.H.DB, &cs.Op{Kind: "find", Q: &cs.Query{Coll: name}})
		if cnt.Err != "" || all.Err != "" {
			return &sm.Fail{Property: "C06", Clause: "count", Detail: fmt.Sprintf("Count/FindAll on %q failed: %q %q", name, cnt.Err, all.Err)}
		}
		if cnt.N != len(all.Docs) || cnt.N != len(c.Docs) {
			return &sm.Fail{Property: "C06", Clause: "count", Detail: fmt.Sprintf("collection %q: Count() = %d, FindAll returns %d, model has %d", name, cnt.N, len(all.Docs), len(c.Docs))}
		}
		for _, f := range c.IndexNames() {
			q := &cs.Query{Coll: name, SortSet: true, Sort: []cs.SortOpt{{Field: f, Dir: 1}}}
			o := &cs.Op{Kind: "find", Q: q}
			res := run.Exec(s.H.DB, o)
			m2 := s.M.Clone()
			if msg := m2.Step(o, res); msg != "" {
				return &sm.Fail{Property: "C06", Clause: "index-scan", Detail: fmt.Sprintf("ordered scan through index %q.%q: %s", name, f, msg)}
			}
		}
	}
	return nil
}

func c06Session(backend string) (*sm.Session, error) {
	s, err := sm.NewSession("C06", "c06", backend)
	if err != nil {
		return nil, err
	}
	s.Hooks = []sm.Hook{auditHook, countHook}
	return s, nil
}

func init() { registerSM("C06", "c06", c06Session) }

func TestC06(t *testing.T) {
	t.Run("histories", testC06Histories)
	t.Run("concurrent", func(t *testing.T) {
		// quiescent points after concurrent use: deletes of the same ids, inserts, index creation and
		// drop racing on one handle; the sequential epilogue (Count, scans, catalogs) must have a
		// sequential explanation, i.e. counters, documents and index entries agree
		col := collector("C06", ruleC06)
		check(t, "C06", cases(60, 1500), 0, func(rt *rapid.T) {
			h, verdict := concurrentCase(rt, "C06", []string{"deletebyid", "deletebyid", "deletebyid", "insert", "delete", "createindex", "dropindex", "updatebyid", "count"})
			col.Case(overlapWrite(h), hashOf(h.Setup, len(h.Ops), h.Ops[0].Op), func() interface{} {
				return map[string]interface{}{"mode": "concurrent", "backend": h.Backend, "operations": len(h.Ops), "verdict": verdict}
			}, "concurrent", "verdict:"+verdict)
		})
	})
}

func testC06Histories(t *testing.T) {
	col := collector("C06", ruleC06)
	backends := []string{run.Bbolt, run.Bbolt, run.BadgerMem}
	check(t, "C06", cases(2500, 120000), ev.Scale(20, 30), func(rt *rapid.T) {
		backend := rapid.SampledFrom(backends).Draw(rt, "backend")
		p := c06Profile()
		s, err := c06Session(backend)
		if err != nil {
			rt.Fatalf("open: %v", err)
		}
		defer s.Close()
		col.Add("histories", 1)
		fail := func(f *sm.Fail) { violate(rt, "C06", "c06", s.Program(f), f) }
		do := func(op cs.Op) {
			if f := s.Do(op); f != nil {
				fail(f)
			}
		}
		p.Seed(rt, s, do)
		rt.Repeat(map[string]func(*rapid.T){
			"step": func(rt *rapid.T) {
				op := p.Draw(rt, s)
				do(op)
				nIdx := 0
				for _, c := range s.M.Colls {
					nIdx += len(c.Indexes)
				}
				nt := nIdx > 0 && s.Facts["deletes"]+s.Facts["drops"]+s.Facts["failed-writes"] > 0
				cl := []string{"backend:" + backend, "op:" + op.Kind}
				for _, k := range []string{"absent-id-delete", "drops", "failed-writes", "index-created-after-data"} {
					if s.Facts[k] > 0 {
						cl = append(cl, "history:"+k)
					}
				}
				for _, c := range s.M.Colls {
					if (c.Indexes["x"] && c.Indexes["xy"]) || (c.Indexes["n"] && c.Indexes["n.a"]) {
						cl = append(cl, "prefix-sibling-indexes")
						break
					}
				}
				if op.Upd != nil && op.Upd.Kind == "inplace" {
					cl = append(cl, "inplace-updater")
				}
				col.Case(nt, hashOf(op, stateDigest(s)), func() interface{} {
					return map[string]interface{}{"op": op, "history_len": len(s.Ops), "backend": backend, "collections": s.M.CollNames()}
				}, cl...)
			},
		})
	})
}

// stateDigest summarises the model state for distinctness.
func stateDigest(s *sm.Session) interface{} {
	type cd struct {
		Name string
		Idx  []string
		Docs []cs.Doc
	}
	var out []cd
	for _, n := range s.M.CollNames() {
		c := s.M.Colls[n]
		d := cd{Name: n, Idx: c.IndexNames()}
		for _, id := range c.Ids() {
			d.Docs = append(d.Docs, c.Docs[id])
		}
		out = append(out, d)
	}
	return out
}
