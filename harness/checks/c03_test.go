package checks

import (
	"fmt"
	"testing"

	"pgregory.net/rapid"

	"verif/harness/cs"
	"verif/harness/ev"
	"verif/harness/model"
	"verif/harness/run"
	"verif/harness/sm"
)

const ruleC03 = "collections constructed from drawn parameters: N in {0,1,2,39,40,41,200,600} (thorough: up to 5000) documents inserted in 1-3 batches, pad strings of 0-1500 bytes so that N spans one to ~150 bbolt leaf pages and the document/index key boundary falls at varying offsets, x = (a*i+b) mod m (optionally cycling int/float/string), index sets over {x, u, y, pad}, bbolt and badger (in memory; on disk in the thorough tier). One bulk operation per case: Update (map), UpdateFunc (copying, in-place, x += k on the filtered/sorted field, nested paths, nil = delete, an update that turns one late document invalid so that the whole operation must fail), Delete, DropCollection (+ re-create), with criteria on the rewritten field, sort on unique keys, skip/limit. Oracle (reference model): the update function runs exactly once per document that FindAll selected immediately before, each time on the pre-call value; afterwards every selected document is f(old) or gone and every other document is unchanged; followed by a complete raw key audit and a full comparison of the collection. An evaluation is one bulk operation; non-trivial when 0 < matched < N and (N >= 100 or an index exists); distinct = distinct cases. A second part races bulk Update/UpdateFunc/Delete with point writes on one handle (schedule perturbed at every store call): the recorded history with a sequential epilogue must be linearizable, i.e. every bulk operation touched exactly what FindAll returned at its linearization point."

func c03Session(backend string) (*sm.Session, error) {
	s, err := sm.NewSession("C03", "c03", backend)
	if err != nil {
		return nil, err
	}
	// the raw key audit runs after every Count step (each case ends with one)
	s.Hooks = []sm.Hook{func(s *sm.Session, op *cs.Op, out *cs.Outcome) *sm.Fail {
		if op.Kind != "count" {
			return nil
		}
		if msg := run.Audit(s.H.Raw, s.M); msg != "" {
			return &sm.Fail{Property: "C03", Clause: "raw-audit", Detail: msg}
		}
		return nil
	}}
	return s, nil
}

func init() { registerSM("C03", "c03", c03Session) }

func TestC03(t *testing.T) {
	t.Run("cases", testC03Cases)
	t.Run("concurrent", func(t *testing.T) {
		// bulk operations racing with point writes: the set a bulk Update/Delete touches must be the
		// one a FindAll at its linearization point returns (no stale selection, no lost update)
		col := collector("C03", ruleC03)
		check(t, "C03", cases(60, 1500), 0, func(rt *rapid.T) {
			h, verdict := concurrentCase(rt, "C03", []string{"update", "updatefunc", "updatefunc", "delete", "deletebyid", "updatebyid", "insert", "find", "count"})
			col.Case(overlapWrite(h), hashOf(h.Setup, len(h.Ops), h.Ops[0].Op), func() interface{} {
				return map[string]interface{}{"mode": "concurrent", "backend": h.Backend, "operations": len(h.Ops), "verdict": verdict}
			}, "concurrent", "verdict:"+verdict)
		})
	})
}

func testC03Cases(t *testing.T) {
	col := collector("C03", ruleC03)
	sizes := []int{0, 1, 2, 39, 40, 41, 200, 600}
	backends := []string{run.Bbolt, run.Bbolt, run.BadgerMem}
	if ev.Thorough() {
		sizes = append(sizes, 1000, 2500, 5000)
		backends = append(backends, run.BadgerDisk)
	}
	check(t, "C03", cases(900, 15000), 0, func(rt *rapid.T) {
		backend := rapid.SampledFrom(backends).Draw(rt, "backend")
		s, err := c03Session(backend)
		if err != nil {
			rt.Fatalf("open: %v", err)
		}
		defer s.Close()
		do := func(op cs.Op) {
			if f := s.Do(op); f != nil {
				violate(rt, "C03", "c03", s.Program(f), f)
			}
		}
		n := rapid.SampledFrom(sizes).Draw(rt, "n")
		pad := rapid.SampledFrom([]int{0, 0, 10, 100, 400, 1500}).Draw(rt, "pad")
		if n >= 1000 && pad > 400 {
			pad = 400
		}
		if backend == run.BadgerMem && rapid.IntRange(0, 4).Draw(rt, "oversized") == 0 {
			// the collection fits (it is inserted in batches), but a bulk operation over all of it
			// exceeds the store's transaction budget: it must be refused as a whole
			n, pad = 1200, 1500
		}

		mod := rapid.SampledFrom([]int{1, 2, 5, 17, 100, 100000}).Draw(rt, "mod")
		gspec := cs.GenSpec{N: n, Pad: pad, Mul: rapid.SampledFrom([]int{1, 3, 7}).Draw(rt, "mul"), Add: rapid.IntRange(0, 5).Draw(rt, "add"), Mod: mod}
		if rapid.IntRange(0, 3).Draw(rt, "mixedtypes") == 0 {
			gspec.Types = "mixed"
		}
		if rapid.IntRange(0, 2).Draw(rt, "sparse") == 0 {
			gspec.Sparse = rapid.SampledFrom([]int{2, 3, 7}).Draw(rt, "sparse-every") // some documents lack x and y
		}
		if rapid.IntRange(0, 2).Draw(rt, "hetero") == 0 {
			gspec.Hetero = rapid.SampledFrom([]int{2, 3, 5}).Draw(rt, "hetero-every") // some documents hold a scalar in n
		}
		ixs := []string{}
		for _, f := range []string{"x", "u", "y", "pad", "n", "n.a"} {
			if rapid.IntRange(0, 2).Draw(rt, "ix-"+f) == 0 {
				ixs = append(ixs, f)
			}
		}
		ixFirst := rapid.Bool().Draw(rt, "index-first")
		do(cs.Op{Kind: "createcoll", Coll: "A"})
		do(cs.Op{Kind: "createcoll", Coll: "AB"}) // a neighbour whose keys follow A's
		mk := func() {
			for _, f := range ixs {
				do(cs.Op{Kind: "createindex", Coll: "A", Field: f})
			}
		}
		if ixFirst {
			mk()
		}
		// 1-3 batches
		nb := rapid.IntRange(1, 3).Draw(rt, "batches")
		if n == 1200 && pad == 1500 {
			nb = 4
		}
		first := 0
		for b := 0; b < nb; b++ {
			cnt := (n - first) / (nb - b)
			g := gspec
			g.First, g.N = first, cnt
			do(cs.Op{Kind: "geninsert", Coll: "A", Gen: &g})
			first += cnt
		}
		nbr := cs.GenSpec{N: 3, Mul: 1, Mod: 10}
		do(cs.Op{Kind: "geninsert", Coll: "AB", Gen: &nbr})
		if !ixFirst {
			mk()
		}
		if n > 0 && rapid.IntRange(0, 2).Draw(rt, "replace-first") == 0 {
			// some documents are rewritten one by one first (ReplaceById / Save hand clover a new
			// document object): the bulk operation must select by their current values
			for k := rapid.IntRange(1, 3).Draw(rt, "nreplace"); k > 0; k-- {
				i := rapid.IntRange(0, n-1).Draw(rt, "replace-i")
				nd := cs.Doc{"_id": sm.GenId(i), "u": int64(i), "x": int64(rapid.IntRange(-1, mod).Draw(rt, "replace-x")), "y": int64(rapid.IntRange(0, 6).Draw(rt, "replace-y")), "n": map[string]interface{}{"a": int64(k)}}
				if rapid.Bool().Draw(rt, "replace-save") {
					do(cs.Op{Kind: "save", Coll: "A", Docs: []cs.Doc{nd}})
				} else {
					do(cs.Op{Kind: "replace", Coll: "A", Id: &cs.IdRef{Lit: sm.GenId(i)}, Docs: []cs.Doc{nd}})
				}
			}
		}
		// the query
		q := &cs.Query{Coll: "A"}
		lit := func(v int) *cs.Operand { o := cs.Lit(int64(v)); return &o }
		switch rapid.IntRange(0, 8).Draw(rt, "critkind") {
		case 0:
		case 7:
			q.Crit = &cs.Crit{Op: "lt", Field: "n.a", Arg: lit(rapid.IntRange(0, 5).Draw(rt, "k"))}
		case 8:
			q.Crit = &cs.Crit{Op: "or", Sub: []*cs.Crit{{Op: "notexists", Field: "n.a"}, {Op: "eq", Field: "n.a", Arg: lit(rapid.IntRange(0, 4).Draw(rt, "k"))}}}
		case 1:
			q.Crit = &cs.Crit{Op: "gte", Field: "x", Arg: lit(rapid.IntRange(0, mod).Draw(rt, "k"))}
		case 2:
			q.Crit = &cs.Crit{Op: "lt", Field: "x", Arg: lit(rapid.IntRange(0, mod).Draw(rt, "k"))}
		case 3:
			q.Crit = &cs.Crit{Op: "eq", Field: "y", Arg: lit(rapid.IntRange(0, 6).Draw(rt, "k"))}
		case 4:
			q.Crit = &cs.Crit{Op: "gte", Field: "u", Arg: lit(rapid.IntRange(0, n).Draw(rt, "k"))}
		case 5:
			q.Crit = &cs.Crit{Op: "or", Sub: []*cs.Crit{{Op: "lt", Field: "u", Arg: lit(n / 3)}, {Op: "gt", Field: "x", Arg: lit(mod / 2)}}}
		case 6:
			q.Crit = &cs.Crit{Op: "neq", Field: "y", Arg: lit(3)}
		}
		if rapid.IntRange(0, 2).Draw(rt, "sorted") == 0 {
			q.SortSet = true
			f := rapid.SampledFrom([]string{"u", "_id", "x"}).Draw(rt, "sortfield")
			q.Sort = []cs.SortOpt{{Field: f, Dir: rapid.SampledFrom([]int{1, -1}).Draw(rt, "dir")}}
			if f == "x" {
				q.Sort = append(q.Sort, cs.SortOpt{Field: "u", Dir: 1})
			}
			if rapid.Bool().Draw(rt, "windowed") {
				sk := rapid.SampledFrom([]int{0, 1, n / 2, n - 1}).Draw(rt, "skip")
				li := rapid.SampledFrom([]int{1, 2, n / 3, n}).Draw(rt, "limit")
				switch rapid.IntRange(0, 3).Draw(rt, "window-shape") {
				case 0:
					q.Skip = &sk // skip only
				case 1:
					q.Limit = &li // limit only
				default:
					q.Skip, q.Limit = &sk, &li
				}
			}
		}
		if rapid.IntRange(0, 11).Draw(rt, "limit-zero") == 0 {
			// Limit(0) selects nothing, with or without sort, skip and criteria
			zero := 0
			q.Limit = &zero
			if rapid.Bool().Draw(rt, "limit-zero-plain") {
				q.Skip = nil
			}
		}
		if _, ok := model.Select(q, s.M.Colls["A"].Docs); !ok {
			q.Skip, q.Limit = nil, nil
		}
		matched := 0
		if sel, ok := model.Select(q, s.M.Colls["A"].Docs); ok {
			matched = len(sel)
		}
		if gspec.Sparse > 0 && rapid.Bool().Draw(rt, "fill-absent") {
			// a first bulk update gives the missing fields a value (their nil index entries must go)
			do(cs.Op{Kind: "update", Q: &cs.Query{Coll: "A", Crit: &cs.Crit{Op: "notexists", Field: "x"}}, UpdMap: map[string]cs.V{"x": {X: int64(mod + 5)}, "y": {X: int64(3)}}})
		}
		kind := rapid.SampledFrom([]string{"update", "updatefunc", "updatefunc", "updatefunc", "delete", "delete", "dropcoll"}).Draw(rt, "opkind")
		op := cs.Op{Kind: kind, Q: q}
		updKind := ""
		switch kind {
		case "update":
			op.UpdMap = map[string]cs.V{rapid.SampledFrom([]string{"x", "y", "z", "n.a", "n.a", "n.c"}).Draw(rt, "updfield"): {X: int64(rapid.IntRange(-1, mod).Draw(rt, "updval"))}}
		case "updatefunc":
			updKind = rapid.SampledFrom([]string{"incr", "incr", "set", "inplace", "delete", "ident", "poison"}).Draw(rt, "updkind")
			op.Upd = &cs.Updater{Kind: updKind, Field: rapid.SampledFrom([]string{"x", "x", "y", "u", "n.a"}).Draw(rt, "updfield")}
			switch updKind {
			case "incr":
				op.Upd.N = int64(rapid.SampledFrom([]int{1, n, mod, -1}).Draw(rt, "incr"))
			case "set", "inplace":
				op.Upd.Value = cs.V{X: int64(rapid.IntRange(-1, mod).Draw(rt, "setval"))}
			case "poison":
				// the offending document is one of the last the operation reaches
				op.Upd.Value = cs.V{X: int64(rapid.IntRange(-1, mod).Draw(rt, "setval"))}
				op.Upd.N = int64(rapid.SampledFrom([]int{n - 1, n - 2, n / 2, 0}).Draw(rt, "poison-at"))
			}
			if (op.Upd.Field == "u" || op.Upd.Field == "n.a") && updKind == "incr" && op.Upd.Field == "n.a" {
				op.Upd.Field = "x"
			}
			if op.Upd.Field == "u" && updKind != "incr" {
				op.Upd.Field = "x"
			}
		case "dropcoll":
			op = cs.Op{Kind: "dropcoll", Coll: "A"}
			matched = n
		}
		if n == 1200 && pad == 1500 && rapid.Bool().Draw(rt, "oversized-late-failure") {
			// over the whole oversized collection, with the offending document near the end: whether
			// the store refuses the transaction or the late document fails it, nothing may change
			op = cs.Op{Kind: "updatefunc", Q: &cs.Query{Coll: "A"}, Upd: &cs.Updater{Kind: "poison", Field: "x", Value: cs.V{X: int64(-5)}, N: int64(n - 1 - rapid.IntRange(0, 40).Draw(rt, "late"))}}
			kind, updKind = "updatefunc", "poison"
		}
		if kind != "dropcoll" && rapid.IntRange(0, 5).Draw(rt, "faulted-first") == 0 {
			// the same operation with one store call failing somewhere in its selection or write phase:
			// it must report the failure and touch nothing (never "success" with a document skipped)
			fo := op
			fo.FaultAt = int64(rapid.SampledFrom([]int{3, 4, 5, 7, 9, 14, 20, 33, 60}).Draw(rt, "fault-at"))
			do(fo)
		}
		do(op)
		if len(ixs) > 0 && rapid.IntRange(0, 3).Draw(rt, "dropindex") == 0 {
			// dropping an index over many entries must leave no residue (audited below)
			f := rapid.SampledFrom(ixs).Draw(rt, "dropfield")
			if s.M.Colls["A"] != nil && s.M.Colls["A"].Indexes[f] {
				do(cs.Op{Kind: "dropindex", Coll: "A", Field: f})
				rest := []string{}
				for _, g := range ixs {
					if g != f {
						rest = append(rest, g)
					}
				}
				ixs = rest
			}
		}
		// post-state: full comparison, raw audit, neighbour untouched, re-creation is empty
		if kind == "dropcoll" {
			do(cs.Op{Kind: "createcoll", Coll: "A"})
			for _, f := range ixs {
				do(cs.Op{Kind: "createindex", Coll: "A", Field: f})
			}
		}
		do(cs.Op{Kind: "find", Q: &cs.Query{Coll: "A"}})
		do(cs.Op{Kind: "find", Q: &cs.Query{Coll: "AB"}})
		for _, f := range ixs {
			do(cs.Op{Kind: "find", Q: &cs.Query{Coll: "A", SortSet: true, Sort: []cs.SortOpt{{Field: f, Dir: 1}}}})
		}
		do(cs.Op{Kind: "count", Q: &cs.Query{Coll: "A"}}) // triggers the raw key audit
		bucket := "n<=2"
		switch {
		case n >= 1000:
			bucket = "n>=1000"
		case n >= 100:
			bucket = "n>=100"
		case n >= 39:
			bucket = "n~40"
		}
		cl := []string{"backend:" + backend, "size:" + bucket, "op:" + kind, fmt.Sprintf("indexes:%d", len(ixs))}
		if updKind != "" {
			cl = append(cl, "updater:"+updKind)
		}
		for _, f := range ixs {
			if (op.Upd != nil && op.Upd.Field == f) || op.UpdMap[f].X != nil {
				cl = append(cl, "index-on-rewritten-field")
			}
		}
		if q.SortSet {
			cl = append(cl, "sorted")
		}
		if q.Skip != nil {
			cl = append(cl, "windowed")
		}
		if pad >= 400 {
			cl = append(cl, "multi-page")
		}
		nt := matched > 0 && matched < n && (n >= 100 || len(ixs) > 0)
		col.Case(nt, hashOf(gspec, ixs, ixFirst, nb, op, backend), func() interface{} {
			return map[string]interface{}{"n": n, "pad": pad, "indexes": ixs, "op": op, "matched": matched, "backend": backend}
		}, cl...)
	})
}
