package checks

import (
	"testing"

	"pgregory.net/rapid"

	"verif/harness/cs"
	"verif/harness/ev"
	"verif/harness/sm"
)

// smCheck is the common shape of a state-machine check.
type smCheck struct {
	property string
	kind     string
	rule     string
	quick    int
	thorough int
	stepsQ   int
	stepsT   int
	backends []string
	profile  func(rt *rapid.T) *sm.Profile
	session  func(backend string) (*sm.Session, error)
	// classify is called after every successful step.
	classify func(s *sm.Session, p *sm.Profile, op cs.Op) (nontrivial bool, classes []string)
	noSeed   bool
	before   func(rt *rapid.T, s *sm.Session, p *sm.Profile)
}

func (c *smCheck) run(t *testing.T) {
	col := collector(c.property, c.rule)
	check(t, c.property, cases(c.quick, c.thorough), ev.Scale(c.stepsQ, c.stepsT), func(rt *rapid.T) {
		backend := rapid.SampledFrom(c.backends).Draw(rt, "backend")
		p := c.profile(rt)
		s, err := c.session(backend)
		if err != nil {
			rt.Fatalf("open: %v", err)
		}
		defer s.Close()
		col.Add("histories", 1)
		do := func(op cs.Op) {
			if f := s.Do(op); f != nil {
				violate(rt, c.property, c.kind, s.Program(f), f)
			}
		}
		if c.before != nil {
			c.before(rt, s, p)
		}
		if !c.noSeed {
			p.Seed(rt, s, do)
		}
		rt.Repeat(map[string]func(*rapid.T){
			"step": func(rt *rapid.T) {
				op := p.Draw(rt, s)
				do(op)
				nt, cl := c.classify(s, p, op)
				cl = append(cl, "backend:"+backend, "op:"+op.Kind)
				col.Case(nt, hashOf(op, stateDigest(s)), func() interface{} {
					return map[string]interface{}{"op": op, "history_len": len(s.Ops), "backend": backend, "collections": s.M.CollNames()}
				}, cl...)
			},
		})
		// every history ends with Close: a transaction leaked by an earlier call makes it block
		if !s.M.Closed {
			do(cs.Op{Kind: "close"})
		}
	})
}
