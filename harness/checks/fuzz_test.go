package checks

import (
	"bytes"
	"crypto/sha256"
	"encoding/json"
	"os"
	"strings"
	"testing"

	"pgregory.net/rapid"

	"verif/harness/cs"
	"verif/harness/ev"
	"verif/harness/gen"
	"verif/harness/model"
	"verif/harness/run"
)

// Native (coverage-guided) fuzz targets. Each one is the property function of the rapid
// check with the same name, unchanged - same generators, same oracle, same replay files -
// but its random choices are read from the byte string the Go fuzzer mutates
// (rapid.MakeFuzz), so that the search is steered by the coverage of clover's code
// instead of by a pseudo-random stream. They run as an extra stage of the thorough tier
// (./check <ID> --tier thorough); the campaign itself cannot be pinned to a seed, the
// reproducible unit is the structured replay file written by violate().

// isFuzzWorker: this process is a worker of a go test -fuzz campaign.
func isFuzzWorker() bool {
	for _, a := range os.Args {
		if strings.HasPrefix(a, "-test.fuzzworker") {
			return true
		}
	}
	return false
}

// fuzzSeeds adds deterministic pseudo-random inputs of several lengths (rapid reads them as
// its random stream; an exhausted stream skips the case).
func fuzzSeeds(f *testing.F, name string) {
	for _, n := range []int{512, 2048, 8192, 32768} {
		buf := make([]byte, 0, n+32)
		h := sha256.Sum256([]byte(name))
		for len(buf) < n {
			buf = append(buf, h[:]...)
			h = sha256.Sum256(h[:])
		}
		f.Add(buf[:n])
	}
}

func fuzzProp(f *testing.F, property, rule string, mk func(col *ev.Collector) func(*rapid.T)) {
	fuzzSeeds(f, property)
	col := collector(property, rule)
	col.Add("fuzz_processes", 1)
	f.Fuzz(rapid.MakeFuzz(mk(col)))
}

func FuzzC08(f *testing.F) { fuzzProp(f, "C08", ruleC08, propC08) }
func FuzzC10(f *testing.F) { fuzzProp(f, "C10", ruleC10, propC10Triples) }
func FuzzC11(f *testing.F) { fuzzProp(f, "C11", ruleC11, propC11RoundTrip) }
func FuzzC16(f *testing.F) { fuzzProp(f, "C16", ruleC16, propC16) }
func FuzzC17(f *testing.F) { fuzzProp(f, "C17", ruleC17, propC17) }
func FuzzC18(f *testing.F) { fuzzProp(f, "C18", ruleC18, propC18) }

// FuzzC19Import feeds raw bytes to ImportCollection as the file content (the one place where
// clover parses bytes it did not write). The oracle is the C19 session: when the reference
// reading of the file (encoding/json, first value, array of objects) fails or holds an invalid
// or repeated _id the import must fail and leave no trace; otherwise the new collection holds
// exactly the file's documents; in every case the existing collection, its index and the
// catalog are untouched (scan, raw-key audit, ghost probe). Inputs whose meaning the property
// does not fix are skipped and counted: a top-level _expiresAt, an _id that is not a string, or
// a non-canonical spelling of a UUID.
func FuzzC19Import(f *testing.F) {
	id := func(i int) string { return gen.Id(i) }
	for _, s := range []string{
		`[]`, `[{}]`, `[null]`, `{`, `[1]`, `[[]]`, ` `, `[{"x":1},{"x":2}]`, `[{"_id":"not-a-uuid"}]`,
		`[{"_id":"` + id(1) + `","x":1,"n":{"a":[1,"s",null,true,1.5,{"k":[]}]},"s":"é😀","a.b":2,"":0}]`,
		`[{"_id":"` + id(1) + `"},{"_id":"` + id(2) + `","x":-0.0,"y":1e300,"z":12345678901234567890}]`,
		`[{"_id":"` + id(1) + `"},{"_id":"` + id(1) + `"}]`,
		`[{"_id":"` + id(0) + `","x":"same id as a document of the existing collection"}]`,
		`[{"_id":"` + id(3) + `","x":1}] trailing`,
		`[{"_id":"` + id(3) + `","x":1,"x":2}]`,
	} {
		f.Add([]byte(s), uint8(0))
		f.Add([]byte(s), uint8(3))
	}
	col := collector("C19", ruleC19)
	col.Add("fuzz_processes", 1)
	f.Fuzz(func(t *testing.T, data []byte, sel uint8) {
		backend := []string{run.Bbolt, run.BadgerMem}[sel&1]
		op := cs.Op{Kind: "import", Coll: "dst", Path: "fuzz.json", Raw: append([]byte{}, data...)}
		if sel&2 != 0 {
			op.Coll = "src" // exists: must fail whatever the file holds
		}
		var objs []*map[string]interface{}
		if err := json.NewDecoder(bytes.NewReader(data)).Decode(&objs); err != nil {
			op.Note = "badfile"
		}
		for _, o := range objs {
			if o == nil {
				op.Note, op.Docs = "badfile", nil
				break
			}
			d := cs.Doc(*o)
			if _, has := d["_expiresAt"]; has {
				col.Exclude("fuzz input with a top-level _expiresAt (expiry is outside C19)")
				t.Skip()
			}
			if v, has := d["_id"]; has {
				sv, isStr := v.(string)
				if !isStr || (sv != "" && !model.ValidId(sv) && len(sv) >= 32) {
					col.Exclude("fuzz input with a non-string _id or a non-canonical UUID spelling")
					t.Skip()
				}
			}
			op.Docs = append(op.Docs, d)
		}
		s, err := c19Session(backend)
		if err != nil {
			t.Fatalf("open: %v", err)
		}
		defer s.Close()
		do := func(op cs.Op) {
			if f := s.Do(op); f != nil {
				violate(t, "C19", "c19", s.Program(f), f)
			}
		}
		do(cs.Op{Kind: "createcoll", Coll: "src"})
		do(cs.Op{Kind: "insert", Coll: "src", Docs: []cs.Doc{{"_id": id(0), "x": int64(1)}, {"_id": id(5), "x": "s", "n": map[string]interface{}{"a": int64(2)}}}})
		do(cs.Op{Kind: "createindex", Coll: "src", Field: "x"})
		do(op)
		do(cs.Op{Kind: "find", Q: &cs.Query{Coll: "dst"}})
		do(cs.Op{Kind: "count", Q: &cs.Query{Coll: "dst"}})
		do(cs.Op{Kind: "close"})
		failed := s.Ops != nil && op.Note == "badfile"
		cl := []string{"fuzz-import", "backend:" + backend}
		if op.Note == "badfile" {
			cl = append(cl, "ill-formed-file")
		}
		if op.Coll == "src" {
			cl = append(cl, "existing-name")
		}
		col.Case(failed || len(op.Docs) > 0, hashOf(data, sel&3), func() interface{} {
			return map[string]interface{}{"mode": "fuzzed import file", "bytes": len(data), "documents": len(op.Docs), "note": op.Note, "target": op.Coll}
		}, cl...)
	})
}
