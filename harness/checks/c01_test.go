package checks

import (
	"fmt"
	"testing"

	"pgregory.net/rapid"

	"verif/harness/cs"
	"verif/harness/ev"
	"verif/harness/gen"
	"verif/harness/model"
	"verif/harness/run"
	"verif/harness/sm"
)

const ruleC01 = "model-based state machine: histories of collection/insert/save/replace/update/delete/index operations with supplied ids, each read (FindAll, ForEach, FindById) compared with the reference evaluator on the model's live documents (tie-aware for sorted windows). An evaluation is one checked read; it is non-trivial when the history already contains an update or delete, the criteria have >=2 leaves or a non-Eq leaf, and the expected result is neither empty nor the whole collection; distinct = distinct (query, collection contents)."

func c01Profile(wide bool) *sm.Profile {
	p := &sm.Profile{
		Name:        "c01",
		FaultRate:   12,
		Colls:       []string{"A", "B", "ab"},
		IndexFields: []string{"x", "y", "n.a", "s", "t", "u", "_id", "xy", "n"},
		Doc:         gen.DocCfg{Val: gen.ValCfg{MaxDepth: 2, NonUTF8: true, LongStr: true, Wide: wide}, PAbsent: 4},
		IdPool:      24,
		MaxDocs:     14,
		Crit:        gen.CritEnv{Val: gen.ValCfg{MaxDepth: 1, NonUTF8: true, Wide: wide}, GoKinds: true, MaxDepth: 4},
		Weights: []sm.W{{"createcoll", 5}, {"insert", 14}, {"save", 4}, {"replace", 4}, {"updatebyid", 6}, {"update", 5},
			{"updatefunc", 5}, {"delete", 4}, {"deletebyid", 5}, {"createindex", 6}, {"dropindex", 2}, {"dropcoll", 1},
			{"find", 30}, {"iterate", 5}, {"foreach", 6}, {"findbyid", 6}},
	}
	if wide {
		// integers beyond 2^53 are only generated while no index exists (keys are float64 by design)
		w := []sm.W{}
		for _, x := range p.Weights {
			if x.Kind != "createindex" && x.Kind != "dropindex" {
				w = append(w, x)
			}
		}
		p.Weights = w
		p.Name = "c01w"
	}
	return p
}

func c01Session(profile, backend string) (*sm.Session, error) {
	s, err := sm.NewSession("C01", profile, backend)
	if err != nil {
		return nil, err
	}
	// what a drop leaves behind turns into wrong query results only after the same name, index
	// and ids are in use again: the raw keys are audited right after every drop
	s.Hooks = []sm.Hook{func(s *sm.Session, op *cs.Op, out *cs.Outcome) *sm.Fail {
		if s.M.Closed || (op.Kind != "dropcoll" && op.Kind != "dropindex") {
			return nil
		}
		if msg := run.Audit(s.H.Raw, s.M); msg != "" {
			return &sm.Fail{Property: "C01", Clause: "drop-residue", Detail: "raw keys after " + op.String() + ": " + msg}
		}
		return nil
	}}
	return s, nil
}

func init() {
	registerSM("C01", "c01", func(b string) (*sm.Session, error) { return c01Session("c01", b) })
	registerSM("C01", "c01w", func(b string) (*sm.Session, error) { return c01Session("c01w", b) })
}

func critClasses(c *cs.Crit) []string {
	seen := map[string]bool{}
	c.Walk(func(x *cs.Crit) {
		seen["op:"+x.Op] = true
		ops := x.Args
		if x.Arg != nil {
			ops = append(ops, *x.Arg)
		}
		for _, o := range ops {
			seen["operand:"+o.Kind] = true
			if o.Kind == "lit" && o.Lit.X == nil {
				seen["operand:nil"] = true
			}
			if o.GoKind != "" {
				seen["operand:gokind"] = true
			}
		}
	})
	out := []string{fmt.Sprintf("depth:%d", c.Depth())}
	for k := range seen {
		out = append(out, k)
	}
	return out
}

func TestC01(t *testing.T) {
	col := collector("C01", ruleC01)
	backends := []string{run.Bbolt}
	if ev.Thorough() {
		backends = append(backends, run.BadgerMem)
	}
	check(t, "C01", cases(14000, 250000), ev.Scale(20, 30), func(rt *rapid.T) {
		wide := rapid.IntRange(0, 3).Draw(rt, "wide") == 0
		backend := rapid.SampledFrom(backends).Draw(rt, "backend")
		p := c01Profile(wide)
		s, err := c01Session(p.Name, backend)
		if err != nil {
			rt.Fatalf("open: %v", err)
		}
		defer s.Close()
		col.Add("histories", 1)
		fail := func(f *sm.Fail) { violate(rt, "C01", p.Name, s.Program(f), f) }
		if wide {
			p.IndexFields = nil
		}
		p.Seed(rt, s, func(op cs.Op) {
			if f := s.Do(op); f != nil {
				fail(f)
			}
		})
		rt.Repeat(map[string]func(*rapid.T){
			"step": func(rt *rapid.T) {
				op := p.Draw(rt, s)
				var pre *model.Coll
				if op.Q != nil {
					pre = s.M.Colls[op.Q.Coll]
				}
				if f := s.Do(op); f != nil {
					fail(f)
				}
				switch op.Kind {
				case "find", "foreach":
					if pre == nil {
						col.Case(false, 0, nil, "missing-collection")
						return
					}
					n := len(model.Matching(pre.Docs, op.Q.Crit))
					nonEq := false
					op.Q.Crit.Walk(func(x *cs.Crit) {
						if len(x.Sub) == 0 && x.Op != "eq" {
							nonEq = true
						}
					})
					nt := s.Facts["updates"]+s.Facts["deletes"] > 0 && op.Q.Crit != nil && (op.Q.Crit.Leaves() >= 2 || nonEq) && n > 0 && n < len(pre.Docs)
					cl := []string{"backend:" + backend, fmt.Sprintf("wide:%v", wide)}
					if op.Q.Crit != nil {
						cl = append(cl, critClasses(op.Q.Crit)...)
					}
					if len(pre.Indexes) > 0 {
						cl = append(cl, "index-present")
						if s.Facts["index-created-after-data"] > 0 {
							cl = append(cl, "index-created-after-data")
						}
					}
					if op.Q.SortSet {
						cl = append(cl, "sorted")
					}
					if op.Q.Skip != nil || op.Q.Limit != nil {
						cl = append(cl, "windowed")
					}
					docs := make([]cs.Doc, 0, len(pre.Docs))
					for _, id := range pre.Ids() {
						docs = append(docs, pre.Docs[id])
					}
					col.Case(nt, hashOf(op.Q, docs), func() interface{} {
						return map[string]interface{}{"query": op.Q.String(), "collection_size": len(docs), "matching": n, "history_len": len(s.Ops)}
					}, cl...)
				case "findbyid":
					col.Case(false, 0, nil, "findbyid")
				}
			},
		})
	})
}
