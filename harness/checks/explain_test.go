package checks

import (
	"encoding/json"
	"fmt"
	"os"
	"sort"
	"testing"

	"github.com/anishathalye/porcupine"

	"verif/harness/cs"
	"verif/harness/model"
	"verif/harness/sm"
)

// TestExplainHistory (development aid): VERIF_EXPLAIN=<c07 replay file> prints the longest partial
// linearization porcupine found and why every remaining minimal operation cannot follow it.
func TestExplainHistory(t *testing.T) {
	path := os.Getenv("VERIF_EXPLAIN")
	if path == "" {
		t.Skip()
	}
	b, _ := os.ReadFile(path)
	var rf replayFile
	json.Unmarshal(b, &rf)
	var h c07History
	if err := json.Unmarshal(rf.Case, &h); err != nil {
		t.Fatal(err)
	}
	m := model.New()
	for i := range h.Setup {
		out := &cs.Outcome{}
		if h.Setup[i].Kind == "insert" {
			for _, d := range h.Setup[i].Docs {
				id, _ := d["_id"].(string)
				out.Ids = append(out.Ids, id)
			}
		}
		if msg := m.Step(&h.Setup[i], out); msg != "" {
			t.Fatal(msg)
		}
	}
	fmt.Println("INITIAL:", digestModel(m))
	ops := make([]porcupine.Operation, len(h.Ops))
	for i := range h.Ops {
		o := &h.Ops[i]
		in := sm.Materialize(o.Op)
		ops[i] = porcupine.Operation{ClientId: o.Client, Input: &in, Call: o.Call, Output: o.Out, Return: o.Return}
	}
	res, info := porcupine.CheckOperationsVerbose(c07Model(m), ops, 0)
	fmt.Println("RESULT:", res)
	pls := info.PartialLinearizations()
	for p, part := range pls {
		best := []int{}
		for _, l := range part {
			if len(l) > len(best) {
				best = l
			}
		}
		fmt.Printf("partition %d: %d partial linearizations, longest %d of %d\n", p, len(part), len(best), len(ops))
		st := m.Clone()
		done := map[int]bool{}
		for _, id := range best {
			o := &h.Ops[id]
			in := sm.Materialize(o.Op)
			done[id] = true
			if isConflict(o.Out.Err) {
				continue
			}
			if msg := st.Step(&in, o.Out); msg != "" {
				fmt.Println("  (unexpected) step failed:", msg)
			}
			fmt.Printf("  %3d client %d [%d,%d] %s -> %s\n", id, o.Client, o.Call, o.Return, clipStr(o.Op.String(), 150), clipStr(fmt.Sprintf("%+v", *o.Out), 150))
		}
		fmt.Println("STATE AFTER:", digestModel(st))
		// minimal remaining operations: those whose call precedes every remaining return
		minRet := int64(1) << 62
		for i := range h.Ops {
			if !done[i] && h.Ops[i].Return < minRet {
				minRet = h.Ops[i].Return
			}
		}
		var cand []int
		for i := range h.Ops {
			if !done[i] && h.Ops[i].Call <= minRet {
				cand = append(cand, i)
			}
		}
		sort.Ints(cand)
		for _, i := range cand {
			o := &h.Ops[i]
			in := sm.Materialize(o.Op)
			n := st.Clone()
			msg := n.Step(&in, o.Out)
			fmt.Printf("CANDIDATE %d client %d [%d,%d] %s\n    -> %s\n    model: %q resync=%v\n", i, o.Client, o.Call, o.Return, o.Op.String(), clipStr(fmt.Sprintf("%+v", *o.Out), 1500), msg, n.NeedResync)
		}
	}
}
