package checks

import (
	"encoding/json"
	"fmt"
	"os"
	"sort"
	"strings"
	"testing"

	clover "github.com/ostafen/clover/v2"
	"github.com/ostafen/clover/v2/query"
	"pgregory.net/rapid"

	"verif/harness/cs"
	"verif/harness/ev"
	"verif/harness/gen"
	"verif/harness/model"
	"verif/harness/run"
	"verif/harness/sm"
)

const ruleC16 = "a criteria tree (all leaf operators, numeric literals in every Go kind that represents them exactly, Field(n) and \"$n\" operands including references to absent fields, And/Or/Not to depth 4; Contains leaves often take their operands from the elements of one array stored under the very field, repeated and in several Go kinds, up to two more operands than the array has elements) and 3-6 documents (absent fields, nil, mixed types). On Criteria.Satisfy with raw Go literals and with pre-normalised literals, and on FindAll over the collection (optionally with an index): truth value = reference evaluator; not(not c) = c; De Morgan on every And/Or node; Neq = not Eq; literal-kind invariance; replacing a field-reference operand by the document's own value does not change the result for that document. An evaluation is one (criteria, collection) case; non-trivial when the criteria are true on some and false on other documents of the case; distinct = distinct cases."

type c16Case struct {
	Docs  []cs.Doc `json:"docs"`
	Crit  *cs.Crit `json:"crit"`
	Index string   `json:"index,omitempty"`
}

func stripKinds(c *cs.Crit) *cs.Crit {
	if c == nil {
		return nil
	}
	n := *c
	if c.Arg != nil {
		a := *c.Arg
		a.GoKind = ""
		n.Arg = &a
	}
	if c.Args != nil {
		n.Args = make([]cs.Operand, len(c.Args))
		for i, a := range c.Args {
			a.GoKind = ""
			n.Args[i] = a
		}
	}
	if c.Sub != nil {
		n.Sub = make([]*cs.Crit, len(c.Sub))
		for i, s := range c.Sub {
			n.Sub[i] = stripKinds(s)
		}
	}
	return &n
}

// substitute replaces field-reference operands by the document's own value; ok=false when
// the value would itself read as a reference (a string starting with '$').
func substitute(c *cs.Crit, d cs.Doc) (*cs.Crit, bool) {
	if c == nil {
		return nil, true
	}
	ok := true
	sub := func(o cs.Operand) cs.Operand {
		name := ""
		switch {
		case o.Kind == "field" || o.Kind == "dollar":
			name = o.Name
		case o.Kind == "lit":
			if s, isStr := o.Lit.X.(string); isStr && strings.HasPrefix(s, "$") {
				name = strings.TrimLeft(s, "$")
			} else {
				return o
			}
		default:
			return o
		}
		v := model.Get(d, name)
		if s, isStr := v.(string); isStr && strings.HasPrefix(s, "$") {
			ok = false
		}
		return cs.Operand{Kind: "lit", Lit: cs.V{X: cs.Clone(v)}}
	}
	n := *c
	if c.Arg != nil {
		a := sub(*c.Arg)
		n.Arg = &a
	}
	if c.Args != nil {
		n.Args = make([]cs.Operand, len(c.Args))
		for i, a := range c.Args {
			n.Args[i] = sub(a)
		}
	}
	if c.Sub != nil {
		n.Sub = make([]*cs.Crit, len(c.Sub))
		for i, s := range c.Sub {
			ns, o := substitute(s, d)
			if !o {
				ok = false
			}
			n.Sub[i] = ns
		}
	}
	return &n, ok
}

// deMorgan rewrites every And/Or node X op Y into not(not X op' not Y).
func deMorgan(c *cs.Crit) *cs.Crit {
	if c == nil {
		return nil
	}
	switch c.Op {
	case "and", "or":
		dual := "or"
		if c.Op == "or" {
			dual = "and"
		}
		return &cs.Crit{Op: "not", Sub: []*cs.Crit{{Op: dual, Sub: []*cs.Crit{
			{Op: "not", Sub: []*cs.Crit{deMorgan(c.Sub[0])}},
			{Op: "not", Sub: []*cs.Crit{deMorgan(c.Sub[1])}}}}}}
	case "not":
		return &cs.Crit{Op: "not", Sub: []*cs.Crit{deMorgan(c.Sub[0])}}
	case "neq":
		e := *c
		e.Op = "eq"
		return &cs.Crit{Op: "not", Sub: []*cs.Crit{&e}}
	case "notexists":
		e := *c
		e.Op = "exists"
		return &cs.Crit{Op: "not", Sub: []*cs.Crit{&e}}
	}
	return c
}

func satisfy(c *cs.Crit, d cs.Doc) (res bool, abnormal string) {
	out := run.Guard(func(o *cs.Outcome) {
		res = run.BuildCriteria(c).Satisfy(run.ToDocument(d))
	})
	return res, out.Err
}

func runC16(c *c16Case) *sm.Fail {
	bad := func(clause, f string, a ...interface{}) *sm.Fail {
		return &sm.Fail{Property: "C16", Clause: clause, Detail: fmt.Sprintf(f, a...) + "  [criteria " + c.Crit.String() + "]"}
	}
	variants := []struct {
		name string
		crit *cs.Crit
	}{
		{"raw-literals", c.Crit},
		{"normalised-literals", stripKinds(c.Crit)},
		{"double-negation", &cs.Crit{Op: "not", Sub: []*cs.Crit{{Op: "not", Sub: []*cs.Crit{c.Crit}}}}},
		{"de-morgan", deMorgan(c.Crit)},
	}
	want := map[string]bool{}
	for _, d := range c.Docs {
		id := d["_id"].(string)
		w := model.Eval(c.Crit, d)
		want[id] = w
		vs := variants
		if sc, ok := substitute(c.Crit, d); ok {
			vs = append(append([]struct {
				name string
				crit *cs.Crit
			}{}, variants...), struct {
				name string
				crit *cs.Crit
			}{"field-reference-substituted", sc})
		}
		for _, v := range vs {
			got, ab := satisfy(v.crit, d)
			if ab != "" {
				return &sm.Fail{Property: "C20", Clause: "no-panic-no-hang", Detail: fmt.Sprintf("Satisfy (%s) of %s on %s: %s", v.name, v.crit, cs.Show(d), ab)}
			}
			if got != w {
				return bad("satisfy:"+v.name, "Satisfy (%s form %s) = %v on %s, reference says %v", v.name, v.crit, got, cs.Show(d), w)
			}
		}
	}
	// through the database
	dir := run.NewScratchDir("C16")
	defer os.RemoveAll(dir)
	h, err := run.Open(run.Bbolt, dir)
	if err != nil {
		return bad("harness", "open: %v", err)
	}
	defer h.Close()
	setup := []cs.Op{{Kind: "createcoll", Coll: "A"}, {Kind: "insert", Coll: "A", Docs: c.Docs}}
	if c.Index != "" {
		setup = append(setup, cs.Op{Kind: "createindex", Coll: "A", Field: c.Index})
	}
	for _, op := range setup {
		if out := run.Exec(h.DB, &op); out.Err != "" {
			return bad("harness", "setup %s failed: %s", op.Kind, out.Err)
		}
	}
	wantIds := []string{}
	for id, w := range want {
		if w {
			wantIds = append(wantIds, id)
		}
	}
	sort.Strings(wantIds)
	for _, v := range variants {
		out := run.Exec(h.DB, &cs.Op{Kind: "find", Q: &cs.Query{Coll: "A", Crit: v.crit}})
		if strings.HasPrefix(out.Err, "panic") || out.Err == "hang" {
			return &sm.Fail{Property: "C20", Clause: "no-panic-no-hang", Detail: fmt.Sprintf("FindAll (%s) of %s: %s", v.name, v.crit, out.Err)}
		}
		if out.Err != "" {
			return bad("findall:"+v.name, "FindAll (%s form %s) failed: %s", v.name, v.crit, out.Err)
		}
		got := idsOf(out.Docs)
		if strings.Join(got, ",") != strings.Join(wantIds, ",") {
			return bad("findall:"+v.name, "FindAll (%s form %s, index %q) selects %v, reference %v", v.name, v.crit, c.Index, got, wantIds)
		}
		// the same literals through the other public entry of the query engine
		out = run.Exec(h.DB, &cs.Op{Kind: "iterate", Q: &cs.Query{Coll: "A", Crit: v.crit}})
		if strings.HasPrefix(out.Err, "panic") || out.Err == "hang" {
			return &sm.Fail{Property: "C20", Clause: "no-panic-no-hang", Detail: fmt.Sprintf("IterateDocs (%s) of %s (index %q): %s", v.name, v.crit, c.Index, out.Err)}
		}
		if out.Err != "" {
			return bad("findall:"+v.name, "IterateDocs (%s form %s) failed: %s", v.name, v.crit, out.Err)
		}
		if got := idsOf(out.Docs); strings.Join(got, ",") != strings.Join(wantIds, ",") {
			return bad("findall:"+v.name, "IterateDocs (%s form %s, index %q) selects %v, reference %v", v.name, v.crit, c.Index, got, wantIds)
		}
	}
	return nil
}

var _ = clover.ErrCollectionExist
var _ = query.Field

func init() {
	replayers["c16"] = func(raw json.RawMessage) *sm.Fail {
		var c c16Case
		if err := json.Unmarshal(raw, &c); err != nil {
			return &sm.Fail{Property: "C16", Clause: "replay", Detail: err.Error()}
		}
		return runC16(&c)
	}
}

func TestC16(t *testing.T) {
	check(t, "C16", cases(30000, 1000000), 0, propC16(collector("C16", ruleC16)))
}

func propC16(col *ev.Collector) func(rt *rapid.T) {
	return func(rt *rapid.T) {
		wide := rapid.IntRange(0, 3).Draw(rt, "wide") == 0
		vcfg := gen.ValCfg{MaxDepth: 1, NonUTF8: true, Wide: wide}
		dcfg := gen.DocCfg{Val: vcfg, PAbsent: 3}
		n := rapid.IntRange(3, 6).Draw(rt, "ndocs")
		docs := make([]cs.Doc, n)
		var values []interface{}
		valuesOf := map[string][]interface{}{}
		for i := range docs {
			d := gen.Fields(dcfg, int64(i)).Draw(rt, "doc")
			d["_id"] = gen.Id(i)
			docs[i] = d
			for _, f := range gen.LeafFields {
				if v, ok := model.Lookup(d, f); ok {
					values = append(values, v)
					valuesOf[f] = append(valuesOf[f], v)
				}
			}
		}
		env := gen.CritEnv{Val: vcfg, Values: values, ValuesOf: valuesOf, GoKinds: true, MaxDepth: 4, ContainsOwn: true}
		crit := env.Crit(rt, rapid.IntRange(1, 4).Draw(rt, "depth"))
		cse := &c16Case{Docs: docs, Crit: crit}
		if !wide && rapid.Bool().Draw(rt, "indexed") {
			cse.Index = rapid.SampledFrom([]string{"x", "y", "n.a", "s", "u", "xy"}).Draw(rt, "index")
			// mostly an index on a field the criteria compare, so that the planner derives ranges
			var used []string
			crit.Walk(func(x *cs.Crit) {
				switch x.Op {
				case "eq", "neq", "gt", "gte", "lt", "lte":
					if x.Field != "_id" && x.Field != "zz" {
						used = append(used, x.Field)
					}
				}
			})
			if len(used) > 0 && rapid.IntRange(0, 4).Draw(rt, "index-used-field") != 0 {
				cse.Index = rapid.SampledFrom(used).Draw(rt, "index-used")
			}
		}
		if f := runC16(cse); f != nil {
			violate(rt, "C16", "c16", cse, f)
		}
		nTrue := 0
		for _, d := range docs {
			if model.Eval(crit, d) {
				nTrue++
			}
		}
		cl := critClasses(crit)
		if cse.Index != "" {
			cl = append(cl, "indexed")
		}
		col.Case(nTrue > 0 && nTrue < n, hashOf(cse), func() interface{} {
			return map[string]interface{}{"criteria": crit.String(), "docs": len(docs), "true_on": nTrue, "index": cse.Index}
		}, cl...)
	}
}
