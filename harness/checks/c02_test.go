package checks

import (
	"bytes"
	"fmt"
	"regexp"
	"sort"
	"strings"
	"testing"
	"unicode/utf8"

	"pgregory.net/rapid"

	"verif/harness/cs"
	"verif/harness/ev"
	"verif/harness/gen"
	"verif/harness/model"
	"verif/harness/run"
	"verif/harness/sm"
)

const ruleC02 = "twin collections in one database: A is never indexed, B carries a generated index set over {x, xy, y, n, n.a, s, t, u, _id} created before, between and after the writes; every write (insert, save, replace, point and bulk update/delete with uniquely determined targets) is applied to both with identical ids. Each generated query (criteria biased to indexed fields, nil / field-reference operands, In/Like/Exists/Contains and negations, Or/Not nesting, every sort direction, skip/limit) is run with FindAll and Count on both: same error class, same id set, same sequence of sort-key tuples (absent = nil), same Count, and both results admissible for the reference model; after bulk writes the complete contents of A and B are equal; occasionally both twins are dropped and re-created under the same names with the same ids and changed values, and after every catalog change the raw key space is audited so that no index entry of an earlier incarnation survives. A second part creates and drops indexes while other clients write (schedule perturbed at every store call); the history, whose sequential epilogue scans every index in order, must be linearizable. A counting decorator records whether B's plan positioned a cursor inside an index. An evaluation is one compared query; non-trivial when B's plan seeked into an index and the expected result is neither empty nor the whole collection, or a sort was served by the index; distinct = distinct (query, contents, index set)."

func c02Profile() *sm.Profile {
	return &sm.Profile{
		Name:        "c02",
		Colls:       []string{"A"},
		IndexFields: []string{"x", "xy", "y", "n", "n.a", "s", "t", "u", "_id"},
		Doc:         gen.DocCfg{Val: gen.ValCfg{MaxDepth: 1, NonUTF8: true}, PAbsent: 4},
		IdPool:      24,
		MaxDocs:     14,
		Crit:        gen.CritEnv{Val: gen.ValCfg{MaxDepth: 1, NonUTF8: true}, GoKinds: true, MaxDepth: 4, NoFunc: false},
		Weights: []sm.W{{Kind: "insert", Weight: 12}, {Kind: "save", Weight: 3}, {Kind: "replace", Weight: 4}, {Kind: "updatebyid", Weight: 7},
			{Kind: "update", Weight: 7}, {Kind: "updatefunc", Weight: 7}, {Kind: "delete", Weight: 5}, {Kind: "deletebyid", Weight: 4},
			{Kind: "createindex", Weight: 9}, {Kind: "dropindex", Weight: 4}, {Kind: "find", Weight: 42}},
	}
}

func c02Session(backend string) (*sm.Session, error) {
	s, err := sm.NewSession("C02", "c02", backend)
	if err != nil {
		return nil, err
	}
	s.Hooks = []sm.Hook{twinHook, func(s *sm.Session, op *cs.Op, out *cs.Outcome) *sm.Fail {
		// index entries of B must be exactly those of its live documents, whatever happened before
		// (residue of an earlier incarnation of the collection would resurface through the index)
		switch op.Kind {
		case "createindex", "dropindex", "createcoll", "dropcoll":
			if msg := run.Audit(s.H.Raw, s.M); msg != "" {
				return &sm.Fail{Property: "C02", Clause: "index-residue", Detail: msg + "  [after " + op.String() + "]"}
			}
		}
		return nil
	}}
	return s, nil
}

func init() { registerSM("C02", "c02", c02Session) }

// mirror renames the collection of an operation to B.
func mirror(op cs.Op) cs.Op {
	m := op
	if m.Coll == "A" {
		m.Coll = "B"
	}
	if op.Q != nil {
		q := *op.Q
		if q.Coll == "A" {
			q.Coll = "B"
		}
		m.Q = &q
	}
	return m
}

// twinState pairs each A-side operation with the B-side operation that must follow it.
// If a history contains an unpaired operation (only possible in hand-edited or minimised
// programs) the twins legitimately diverge and all further comparisons are skipped.
type twinState struct {
	pending    *cs.Op
	pendingOut *cs.Outcome
	broken     bool
}

var twins = map[*sm.Session]*twinState{}

func keyTuple(d cs.Doc, opts []cs.SortOpt) []interface{} {
	t := make([]interface{}, len(opts))
	for i, o := range opts {
		t[i] = model.Get(d, o.Field)
	}
	return t
}

// twinHook compares each B-side operation with the A-side operation that preceded it.
func twinHook(s *sm.Session, op *cs.Op, out *cs.Outcome) *sm.Fail {
	ts := twins[s]
	if ts == nil {
		ts = &twinState{}
		twins[s] = ts
	}
	coll := op.Coll
	if op.Q != nil {
		coll = op.Q.Coll
	}
	if ts.broken {
		return nil
	}
	if op.Kind == "createindex" || op.Kind == "dropindex" || op.Kind == "createcoll" {
		if ts.pending != nil || (coll != "B" && op.Kind != "createcoll") {
			ts.broken = true
		}
		return nil
	}
	if coll == "A" {
		if ts.pending != nil {
			ts.broken = true
			return nil
		}
		ts.pending, ts.pendingOut = op, out
		return nil
	}
	if ts.pending == nil || mirror(*ts.pending).String() != op.String() {
		ts.broken = true
		return nil
	}
	a := ts.pendingOut
	ts.pending, ts.pendingOut = nil, nil
	bad := func(clause, f string, args ...interface{}) *sm.Fail {
		return &sm.Fail{Property: "C02", Clause: clause, Detail: fmt.Sprintf(f, args...) + "  [" + op.String() + "]"}
	}
	if (a.Err == "") != (out.Err == "") {
		return bad("twin-error", "without index: err=%q, with indexes: err=%q", a.Err, out.Err)
	}
	switch op.Kind {
	case "find":
		if len(a.Docs) != len(out.Docs) {
			return bad("twin-find", "without index %d documents, with indexes %d", len(a.Docs), len(out.Docs))
		}
		opts := model.NormSort(op.Q)
		skip, limit := model.Window(op.Q)
		windowed := skip > 0 || limit >= 0
		if len(opts) > 0 {
			for i := range a.Docs {
				ka, kb := keyTuple(a.Docs[i], opts), keyTuple(out.Docs[i], opts)
				for j := range ka {
					if model.Cmp(ka[j], kb[j]) != 0 {
						return bad("twin-sort", "position %d: sort key without index %s, with indexes %s", i, cs.Show(ka), cs.Show(kb))
					}
				}
			}
		}
		if len(opts) == 0 && !windowed || len(opts) > 0 && !windowed {
			ia, ib := idsOf(a.Docs), idsOf(out.Docs)
			if fmt.Sprint(ia) != fmt.Sprint(ib) {
				return bad("twin-find", "different id sets: without index %v, with indexes %v", ia, ib)
			}
		}
	case "count":
		if a.N != out.N {
			return bad("twin-count", "Count without index %d, with indexes %d", a.N, out.N)
		}
	case "update", "updatefunc", "delete", "insert", "save", "replace", "updatebyid", "deletebyid":
		if s.M.Colls["A"] == nil || s.M.Colls["B"] == nil {
			return nil
		}
		da, db := scan(s, "A"), scan(s, "B")
		if da.Err != "" || db.Err != "" {
			return bad("twin-contents", "scan failed: %q %q", da.Err, db.Err)
		}
		ma := map[string]cs.Doc{}
		for _, d := range da.Docs {
			ma[d["_id"].(string)] = d
		}
		if len(da.Docs) != len(db.Docs) {
			return bad("twin-contents", "after the write A holds %d documents and B %d", len(da.Docs), len(db.Docs))
		}
		for _, d := range db.Docs {
			id, _ := d["_id"].(string)
			if o, ok := ma[id]; !ok || !cs.StrictEqual(map[string]interface{}(o), map[string]interface{}(d)) {
				return bad("twin-contents", "document %q: A holds %s, B holds %s", id, cs.Show(o), cs.Show(d))
			}
		}
	}
	return nil
}

func idsOf(docs []cs.Doc) []string {
	ids := make([]string, len(docs))
	for i, d := range docs {
		ids[i], _ = d["_id"].(string)
	}
	sort.Strings(ids)
	return ids
}

func TestC02(t *testing.T) {
	t.Run("twins", testC02Twins)
	t.Run("strings", testC02Strings)
	t.Run("concurrent", func(t *testing.T) {
		// an index created or dropped while other clients write: afterwards index-served scans (the
		// sequential epilogue) must still return what a full scan returns
		col := collector("C02", ruleC02)
		check(t, "C02", cases(60, 1500), 0, func(rt *rapid.T) {
			h, verdict := concurrentCase(rt, "C02", []string{"createindex", "createindex", "dropindex", "insert", "insert", "updatebyid", "update", "deletebyid", "find"})
			col.Case(overlapWrite(h), hashOf(h.Setup, len(h.Ops), h.Ops[0].Op), func() interface{} {
				return map[string]interface{}{"mode": "concurrent", "backend": h.Backend, "operations": len(h.Ops), "verdict": verdict}
			}, "concurrent", "verdict:"+verdict)
		})
	})
}

// testC02Strings: string-valued twins (one indexed) queried with everything a planner could
// serve from a range of the string index: anchored Like patterns over stored prefixes,
// comparisons and pairs around stored strings, with high bytes and NULs right after a prefix.
func testC02Strings(t *testing.T) {
	col := collector("C02", ruleC02)
	pool := []string{"", "a", "ab", "abc", "abd", "ac", "b", "a\x00", "a\x00b", "a\xff", "a\xffb", "a\xff\xff", "ab\xff", "ab\xffz", "\xff", "é", "éa", "a.b", "a*", "^a", "A", "Ab"}
	check(t, "C02", cases(600, 20000), 0, func(rt *rapid.T) {
		backend := rapid.SampledFrom([]string{run.Bbolt, run.Bbolt, run.BadgerMem}).Draw(rt, "backend")
		s, err := sm.NewSession("C02", "c02str", backend)
		if err != nil {
			rt.Fatalf("open: %v", err)
		}
		defer s.Close()
		do := func(op cs.Op) {
			if f := s.Do(op); f != nil {
				violate(rt, "C02", "c02str", s.Program(f), f)
			}
		}
		// the indexed field's name has any length up to 65 bytes (key construction must not depend on it)
		fld := "s" + strings.Repeat("q", rapid.IntRange(0, 64).Draw(rt, "field-name-pad"))
		n := rapid.IntRange(2, 9).Draw(rt, "ndocs")
		var docs []cs.Doc
		var stored []string
		for i := 0; i < n; i++ {
			d := cs.Doc{"_id": gen.Id(i), "u": int64(i)}
			switch rapid.IntRange(0, 9).Draw(rt, "shape") {
			case 0: // absent
			case 1:
				d[fld] = nil
			case 2:
				d[fld] = int64(7)
			default:
				v := rapid.SampledFrom(pool).Draw(rt, "str")
				d[fld] = v
				stored = append(stored, v)
			}
			docs = append(docs, d)
		}
		ixFirst := rapid.Bool().Draw(rt, "index-first")
		do(cs.Op{Kind: "createcoll", Coll: "A"})
		do(cs.Op{Kind: "createcoll", Coll: "B"})
		if ixFirst {
			do(cs.Op{Kind: "createindex", Coll: "B", Field: fld})
		}
		do(cs.Op{Kind: "insert", Coll: "A", Docs: docs})
		do(cs.Op{Kind: "insert", Coll: "B", Docs: docs})
		if !ixFirst {
			do(cs.Op{Kind: "createindex", Coll: "B", Field: fld})
		}
		lit := func(v interface{}) *cs.Operand { o := cs.Lit(v); return &o }
		for qi := rapid.IntRange(3, 8).Draw(rt, "nqueries"); qi > 0; qi-- {
			base := rapid.SampledFrom(pool).Draw(rt, "base")
			if len(stored) > 0 && rapid.IntRange(0, 3).Draw(rt, "stored-base") != 0 {
				base = rapid.SampledFrom(stored).Draw(rt, "base-stored")
			}
			var crit *cs.Crit
			switch rapid.IntRange(0, 5).Draw(rt, "qshape") {
			case 0, 1, 2:
				// anchored at a prefix of the base string (1..len bytes, cut at a rune boundary is not
				// required: QuoteMeta keeps the bytes; an invalid pattern is a legal error for both)
				k := rapid.IntRange(0, len(base)).Draw(rt, "prefixlen")
				pat := "^" + regexp.QuoteMeta(base[:k]) + rapid.SampledFrom([]string{"", ".*", "$", ".", "[^z]"}).Draw(rt, "tail")
				if !utf8.ValidString(pat) {
					pat = "^" + regexp.QuoteMeta(strings.ToValidUTF8(base[:k], ""))
				}
				crit = &cs.Crit{Op: "like", Field: fld, Pattern: pat}
			case 3:
				crit = &cs.Crit{Op: rapid.SampledFrom([]string{"gt", "gte", "lt", "lte", "eq", "neq"}).Draw(rt, "cmp"), Field: fld, Arg: lit(base)}
			case 4:
				hi := base + rapid.SampledFrom([]string{"\xff", "\x00", "z", "\xff\xff"}).Draw(rt, "hi")
				crit = &cs.Crit{Op: "and", Sub: []*cs.Crit{{Op: "gte", Field: fld, Arg: lit(base)}, {Op: rapid.SampledFrom([]string{"lt", "lte"}).Draw(rt, "ub"), Field: fld, Arg: lit(hi)}}}
			case 5:
				crit = &cs.Crit{Op: "not", Sub: []*cs.Crit{{Op: "like", Field: fld, Pattern: "^" + regexp.QuoteMeta(strings.ToValidUTF8(base, ""))}}}
			}
			for _, coll := range []string{"A", "B"} {
				q := &cs.Query{Coll: coll, Crit: crit}
				if rapid.IntRange(0, 3).Draw(rt, "sorted") == 0 {
					q.SortSet = true
					q.Sort = []cs.SortOpt{{Field: fld, Dir: rapid.SampledFrom([]int{1, -1}).Draw(rt, "dir")}}
				}
				do(cs.Op{Kind: rapid.SampledFrom([]string{"find", "find", "count"}).Draw(rt, "kind"), Q: q})
			}
			matched := len(model.Matching(s.M.Colls["A"].Docs, crit))
			col.Case(matched > 0 && matched < n, hashOf(docs, crit), func() interface{} {
				return map[string]interface{}{"mode": "string twins", "criteria": crit.String(), "docs": n, "matched": matched, "backend": backend}
			}, "string-twins", "backend:"+backend, "crit:"+crit.Op)
		}
		do(cs.Op{Kind: "close"})
	})
}

func testC02Twins(t *testing.T) {
	col := collector("C02", ruleC02)
	backends := []string{run.Bbolt, run.Bbolt, run.BadgerMem}
	check(t, "C02", cases(3000, 120000), ev.Scale(22, 32), func(rt *rapid.T) {
		backend := rapid.SampledFrom(backends).Draw(rt, "backend")
		p := c02Profile()
		s, err := c02Session(backend)
		if err != nil {
			rt.Fatalf("open: %v", err)
		}
		defer func() { delete(twins, s); s.Close() }()
		col.Add("histories", 1)
		do := func(op cs.Op) {
			if f := s.Do(op); f != nil {
				violate(rt, "C02", "c02", s.Program(f), f)
			}
		}
		var idxReads int64
		s.H.Deco.KeyLog = func(kind int, key []byte) {
			if kind == run.KSeek && bytes.HasPrefix(key, []byte("c:B;i:")) {
				idxReads++
			}
		}
		do(cs.Op{Kind: "createcoll", Coll: "A"})
		do(cs.Op{Kind: "createcoll", Coll: "B"})
		if rapid.IntRange(0, 2).Draw(rt, "index-first") == 0 {
			do(cs.Op{Kind: "createindex", Coll: "B", Field: rapid.SampledFrom(p.IndexFields).Draw(rt, "ixf")})
		}
		n := rapid.IntRange(2, 8).Draw(rt, "seed-ndocs")
		docs := make([]cs.Doc, n)
		for i := range docs {
			d := gen.Fields(p.Doc, int64(i)).Draw(rt, "seed-doc")
			d["_id"] = gen.Id(i)
			docs[i] = d
		}
		do(cs.Op{Kind: "insert", Coll: "A", Docs: docs})
		do(cs.Op{Kind: "insert", Coll: "B", Docs: docs})
		rt.Repeat(map[string]func(*rapid.T){
			"step": func(rt *rapid.T) {
				op := p.Draw(rt, s)
				switch op.Kind {
				case "createindex", "dropindex":
					op.Coll = "B"
					// steer by B's catalog
					b := s.M.Colls["B"]
					cands := []string{}
					for _, f := range p.IndexFields {
						if b != nil && b.Indexes[f] == (op.Kind == "dropindex") {
							cands = append(cands, f)
						}
					}
					if len(cands) > 0 {
						op.Field = rapid.SampledFrom(cands).Draw(rt, "ixfield-b")
					}
					do(op)
					return
				case "delete":
					if rapid.IntRange(0, 5).Draw(rt, "recreate") == 0 && s.M.Colls["A"] != nil && s.M.Colls["B"] != nil {
						// drop both twins and start again under the same names with the same ids: indexes
						// created later must only see the new documents
						keep := []cs.Doc{}
						for _, id := range s.M.Colls["A"].Ids() {
							d := cs.CloneDoc(s.M.Colls["A"].Docs[id])
							for _, f := range []string{"x", "y", "xy"} {
								if rapid.Bool().Draw(rt, "recreate-change") {
									d[f] = gen.Scalar(p.Doc.Val).Draw(rt, "recreate-val")
								}
							}
							keep = append(keep, d)
						}
						do(cs.Op{Kind: "dropcoll", Coll: "A"})
						do(cs.Op{Kind: "dropcoll", Coll: "B"})
						do(cs.Op{Kind: "createcoll", Coll: "A"})
						do(cs.Op{Kind: "createcoll", Coll: "B"})
						do(cs.Op{Kind: "insert", Coll: "A", Docs: keep})
						do(cs.Op{Kind: "insert", Coll: "B", Docs: keep})
						return
					}
					if op.Q != nil && s.M.Colls["A"] != nil {
						if _, ok := model.Select(op.Q, s.M.Colls["A"].Docs); !ok {
							op.Q.Skip, op.Q.Limit = nil, nil
						}
					}
					do(op)
					do(mirror(op))
					return
				case "find":
					// bias the query towards B's indexed fields
					b := s.M.Colls["B"]
					if b != nil {
						env := p.Crit
						env.Hot = b.IndexNames()
						env.Values = nil
						env.ValuesOf = map[string][]interface{}{}
						if a := s.M.Colls["A"]; a != nil {
							for _, id := range a.Ids() {
								for _, f := range gen.LeafFields {
									if v, ok := model.Lookup(a.Docs[id], f); ok {
										env.Values = append(env.Values, v)
										env.ValuesOf[f] = append(env.ValuesOf[f], v)
									}
								}
								if len(env.Values) > 60 {
									break
								}
							}
						}
						qc := gen.QueryCfg{Env: env, Size: len(b.Docs), PCrit: 8}
						op.Q = qc.Query(rt, "A")
					}
					before := idxReads
					do(op)
					pre := s.M.Colls["A"]
					do(mirror(op))
					touched := idxReads - before
					cnt := cs.Op{Kind: "count", Q: op.Q}
					do(cnt)
					do(mirror(cnt))
					if pre == nil {
						return
					}
					nm := len(model.Matching(pre.Docs, op.Q.Crit))
					sortServed := touched > 0 && op.Q.SortSet
					nt := touched > 0 && (nm > 0 && nm < len(pre.Docs) || sortServed)
					cl := []string{"backend:" + backend}
					if touched > 0 {
						cl = append(cl, "plan-read-index-keys")
					}
					if op.Q.Crit != nil {
						cl = append(cl, critClasses(op.Q.Crit)...)
					}
					if sortServed {
						cl = append(cl, "sort-with-index-reads")
						for _, o := range op.Q.Sort {
							if o.Dir < 0 {
								cl = append(cl, "reverse-direction")
								break
							}
						}
					}
					if b := s.M.Colls["B"]; b != nil {
						if (b.Indexes["x"] && b.Indexes["xy"]) || (b.Indexes["n"] && b.Indexes["n.a"]) {
							cl = append(cl, "prefix-sibling-indexes")
						}
						cl = append(cl, fmt.Sprintf("indexes:%d", len(b.Indexes)))
					}
					for _, k := range []string{"updates", "deletes", "index-created-after-data"} {
						if s.Facts[k] > 0 {
							cl = append(cl, "history:"+k)
						}
					}
					var bix []string
					if b := s.M.Colls["B"]; b != nil {
						bix = b.IndexNames()
					}
					adocs := make([]cs.Doc, 0, len(pre.Docs))
					for _, id := range pre.Ids() {
						adocs = append(adocs, pre.Docs[id])
					}
					col.Case(nt, hashOf(op.Q, adocs, bix), func() interface{} {
						return map[string]interface{}{"query": op.Q.String(), "indexes_on_B": bix, "collection_size": len(adocs), "matching": nm, "index_seeks": touched}
					}, cl...)
					return
				}
				// writes: same operation on both
				if op.Q != nil && s.M.Colls["A"] != nil {
					if _, ok := model.Select(op.Q, s.M.Colls["A"].Docs); !ok {
						op.Q.Skip, op.Q.Limit = nil, nil
					}
				}
				do(op)
				do(mirror(op))
			},
		})
	})
}

func init() {
	registerSM("C02", "c02str", func(b string) (*sm.Session, error) { return sm.NewSession("C02", "c02str", b) })
}
