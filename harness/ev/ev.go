// Package ev collects what a check run actually covered and writes it, per shard, for
// the driver to merge into /verif/evidence/<id>.json.
package ev

import (
	"encoding/json"
	"fmt"
	"os"
	"path/filepath"
	"sort"
	"strconv"
	"strings"
	"sync"
	"time"
)

type Violation struct {
	Property string `json:"property"`
	Clause   string `json:"clause"`
	Detail   string `json:"detail"`
	Replay   string `json:"replay"`
}

type Collector struct {
	Property string
	Rule     string

	mu          sync.Mutex
	start       time.Time
	evaluations int
	classes     map[string]int
	nontrivial  map[uint64]struct{}
	samples     []json.RawMessage
	excluded    map[string]int
	violations  []Violation
	extra       map[string]interface{}
	assumptions []string
}

func New(property, rule string) *Collector {
	return &Collector{Property: property, Rule: rule, start: time.Now(), classes: map[string]int{}, nontrivial: map[uint64]struct{}{},
		excluded: map[string]int{}, extra: map[string]interface{}{}}
}

// Case records one evaluated case.
func (c *Collector) Case(nontrivial bool, hash uint64, sample func() interface{}, classes ...string) {
	c.mu.Lock()
	defer c.mu.Unlock()
	c.evaluations++
	for _, k := range classes {
		c.classes[k]++
	}
	if nontrivial {
		c.classes["nontrivial"]++
		if _, seen := c.nontrivial[hash]; !seen {
			c.nontrivial[hash] = struct{}{}
			// keep a few spread-out samples: the 1st, 10th, 100th … distinct non-trivial case
			n := len(c.nontrivial)
			if sample != nil && len(c.samples) < 6 && (n == 1 || n == 7 || n == 50 || n == 300 || n == 2000 || n == 10000) {
				if b, err := json.Marshal(sample()); err == nil && len(b) < 20000 {
					c.samples = append(c.samples, b)
				}
			}
		}
	}
}

// Class bumps class counters without counting an evaluation.
func (c *Collector) Class(classes ...string) {
	c.mu.Lock()
	defer c.mu.Unlock()
	for _, k := range classes {
		c.classes[k]++
	}
}

func (c *Collector) Exclude(finding string) {
	c.mu.Lock()
	defer c.mu.Unlock()
	c.excluded[finding]++
}

func (c *Collector) Add(key string, n int) {
	c.mu.Lock()
	defer c.mu.Unlock()
	v, _ := c.extra[key].(int)
	c.extra[key] = v + n
}

func (c *Collector) Assume(s string) {
	c.mu.Lock()
	defer c.mu.Unlock()
	for _, a := range c.assumptions {
		if a == s {
			return
		}
	}
	c.assumptions = append(c.assumptions, s)
}

// Violation records a violation; the last one recorded for a replay path wins (shrinking
// overwrites the file).
func (c *Collector) Violation(v Violation) {
	c.mu.Lock()
	defer c.mu.Unlock()
	for i := range c.violations {
		if c.violations[i].Replay == v.Replay {
			c.violations[i] = v
			return
		}
	}
	c.violations = append(c.violations, v)
}

// Violations returns a copy of the recorded violations.
func (c *Collector) Violations() []Violation {
	c.mu.Lock()
	defer c.mu.Unlock()
	return append([]Violation{}, c.violations...)
}

// OutDir is where shard files go.
func OutDir() string {
	if d := os.Getenv("VERIF_OUT"); d != "" {
		return d
	}
	return ""
}

func Shard() int {
	n, _ := strconv.Atoi(os.Getenv("VERIF_SHARD"))
	return n
}

// fileShard distinguishes the report files of the worker processes of one go test -fuzz
// campaign, which all inherit the same VERIF_SHARD.
func fileShard() int {
	for _, a := range os.Args {
		if strings.HasPrefix(a, "-test.fuzzworker") {
			return 1000000 + os.Getpid()
		}
	}
	return Shard()
}

func Seed() uint64 {
	n, _ := strconv.ParseUint(os.Getenv("VERIF_SEED"), 10, 64)
	return n
}

func Tier() string {
	if t := os.Getenv("VERIF_TIER"); t != "" {
		return t
	}
	return "quick"
}

func Thorough() bool { return Tier() == "thorough" }

// Scale picks the case count for the tier.
func Scale(quick, thorough int) int {
	if Thorough() {
		return thorough
	}
	return quick
}

type shardFile struct {
	Property    string                 `json:"property"`
	Shard       int                    `json:"shard"`
	Rule        string                 `json:"rule"`
	Evaluations int                    `json:"evaluations"`
	Classes     map[string]int         `json:"classes"`
	Hashes      []string               `json:"hashes"`
	NDistinct   int                    `json:"ndistinct"`
	Samples     []json.RawMessage      `json:"samples"`
	Excluded    map[string]int         `json:"excluded"`
	Violations  []Violation            `json:"violations"`
	Extra       map[string]interface{} `json:"extra"`
	Assumptions []string               `json:"assumptions"`
	WallS       float64                `json:"wall_s"`
}

// Write stores the shard file (no-op without VERIF_OUT).
func (c *Collector) Write() {
	dir := OutDir()
	if dir == "" {
		return
	}
	c.mu.Lock()
	defer c.mu.Unlock()
	sf := shardFile{Property: c.Property, Shard: Shard(), Rule: c.Rule, Evaluations: c.evaluations, Classes: c.classes,
		NDistinct: len(c.nontrivial), Samples: c.samples, Excluded: c.excluded, Violations: c.violations, Extra: c.extra,
		Assumptions: c.assumptions, WallS: time.Since(c.start).Seconds()}
	if len(c.nontrivial) <= 300000 {
		sf.Hashes = make([]string, 0, len(c.nontrivial))
		for h := range c.nontrivial {
			sf.Hashes = append(sf.Hashes, strconv.FormatUint(h, 36))
		}
		sort.Strings(sf.Hashes)
	}
	b, _ := json.Marshal(sf)
	os.MkdirAll(dir, 0o755)
	name := filepath.Join(dir, fmt.Sprintf("%s.%d.json", c.Property, fileShard()))
	os.WriteFile(name, b, 0o644)
}

// ReplayDir returns /verif/replays/<property> (or VERIF_REPLAYS/<property>).
func ReplayDir(property string) string {
	root := os.Getenv("VERIF_REPLAYS")
	if root == "" {
		root = "/verif/replays"
	}
	d := filepath.Join(root, property)
	os.MkdirAll(d, 0o755)
	return d
}

// ReplayPath names the replay file of this run/shard.
func ReplayPath(property, tag string) string {
	return filepath.Join(ReplayDir(property), fmt.Sprintf("%s-seed%d-shard%d-%s.json", Tier(), Seed(), Shard(), tag))
}
