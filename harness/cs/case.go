package cs

import (
	"encoding/json"
	"fmt"
	"hash/fnv"
	"strings"
)

// Operand of a criterion leaf.
type Operand struct {
	Kind   string `json:"kind"`             // "lit" | "field" | "dollar" | "bad"
	Lit    V      `json:"lit"`              // canonical value (Kind lit)
	GoKind string `json:"gokind,omitempty"` // how a numeric literal is handed to clover: "", "int", "int8" … "float32", "float64"
	Name   string `json:"name,omitempty"`   // referenced field (Kind field / dollar)
}

func Lit(v interface{}) Operand { return Operand{Kind: "lit", Lit: V{v}} }

// Crit is a criteria tree.
// Ops: eq neq gt gte lt lte in contains like exists notexists isnil istrue isfalse
// isnilornotexists func and or not.
type Crit struct {
	Op      string    `json:"op"`
	Field   string    `json:"field,omitempty"`
	Arg     *Operand  `json:"arg,omitempty"`
	Args    []Operand `json:"args,omitempty"`
	Pattern string    `json:"pattern,omitempty"`
	Func    string    `json:"func,omitempty"`
	Sub     []*Crit   `json:"sub,omitempty"`
}

func (c *Crit) String() string {
	if c == nil {
		return "<none>"
	}
	opnd := func(o Operand) string {
		switch o.Kind {
		case "field":
			return "Field(" + o.Name + ")"
		case "dollar":
			return "\"$" + o.Name + "\""
		case "bad":
			return "<unsupported>"
		}
		s := Show(o.Lit.X)
		if o.GoKind != "" {
			s = o.GoKind + "(" + s + ")"
		}
		return s
	}
	switch c.Op {
	case "and", "or":
		return "(" + c.Sub[0].String() + " " + c.Op + " " + c.Sub[1].String() + ")"
	case "not":
		return "not(" + c.Sub[0].String() + ")"
	case "in", "contains":
		parts := make([]string, len(c.Args))
		for i, a := range c.Args {
			parts[i] = opnd(a)
		}
		return c.Field + "." + c.Op + "(" + strings.Join(parts, ",") + ")"
	case "like":
		return fmt.Sprintf("%s.like(%q)", c.Field, c.Pattern)
	case "func":
		return "func:" + c.Func
	case "exists", "notexists", "isnil", "istrue", "isfalse", "isnilornotexists":
		return c.Field + "." + c.Op
	}
	if c.Arg == nil {
		return c.Field + "." + c.Op + "(?)"
	}
	return c.Field + "." + c.Op + "(" + opnd(*c.Arg) + ")"
}

// Walk visits every node.
func (c *Crit) Walk(f func(*Crit)) {
	if c == nil {
		return
	}
	f(c)
	for _, s := range c.Sub {
		s.Walk(f)
	}
}

func (c *Crit) Depth() int {
	if c == nil {
		return 0
	}
	d := 0
	for _, s := range c.Sub {
		if x := s.Depth(); x > d {
			d = x
		}
	}
	return d + 1
}

func (c *Crit) Leaves() int {
	n := 0
	c.Walk(func(x *Crit) {
		if len(x.Sub) == 0 {
			n++
		}
	})
	return n
}

type SortOpt struct {
	Field string `json:"field"`
	Dir   int    `json:"dir"`
}

// Query mirrors the query builder calls that are made, in order:
// NewQuery(Coll) [.Where(Crit)] [.Sort(Sort...)] [.Skip] [.Limit].
type Query struct {
	Coll    string    `json:"coll"`
	Crit    *Crit     `json:"crit,omitempty"`
	SortSet bool      `json:"sortset,omitempty"` // Sort(...) is called (possibly without options)
	Sort    []SortOpt `json:"sort,omitempty"`
	Skip    *int      `json:"skip,omitempty"`
	Limit   *int      `json:"limit,omitempty"`
}

func (q *Query) String() string {
	s := "Q(" + q.Coll
	if q.Crit != nil {
		s += " where " + q.Crit.String()
	}
	if q.SortSet {
		s += fmt.Sprintf(" sort%v", q.Sort)
	}
	if q.Skip != nil {
		s += fmt.Sprintf(" skip %d", *q.Skip)
	}
	if q.Limit != nil {
		s += fmt.Sprintf(" limit %d", *q.Limit)
	}
	return s + ")"
}

// IdRef names a document id: literally, or symbolically as the id that the Insert of
// step Step assigned to its Pos-th document.
type IdRef struct {
	Lit  string `json:"lit,omitempty"`
	Sym  bool   `json:"sym,omitempty"`
	Step int    `json:"step,omitempty"`
	Pos  int    `json:"pos,omitempty"`
}

// Updater describes the function handed to UpdateById / UpdateFunc.
// Kinds: "set" (copy + Set(Field, Value)), "inplace" (mutate the argument and return it),
// "delete" (return nil; bulk only), "setmany" (copy + several sets, Fields sorted),
// "incr" (copy + numeric field += N), "ident" (return the argument).
type Updater struct {
	Kind   string       `json:"kind"`
	Field  string       `json:"field,omitempty"`
	Value  V            `json:"value"`
	Values map[string]V `json:"values,omitempty"`
	N      int64        `json:"n,omitempty"`
}

// GenSpec describes a batch of documents constructed from parameters instead of being
// listed: document i (First <= i < First+N) has _id = Id(i), u = i, x = (Mul*i+Add) mod Mod
// typed by Types (""=int64; "mixed" cycles int64, float64, string by i%3), y = i mod 7, n = {a: i mod 5, b: "k"},
// and a pad string of Pad bytes.
type GenSpec struct {
	First  int    `json:"first"`
	N      int    `json:"n"`
	Pad    int    `json:"pad"`
	Mul    int    `json:"mul"`
	Add    int    `json:"add"`
	Mod    int    `json:"mod"`
	Types  string `json:"types,omitempty"`
	DupAt  int    `json:"dupat,omitempty"`  // position k > 0 whose _id repeats the one of position 0 (0 = none)
	BadAt  int    `json:"badat,omitempty"`  // position k > 0 holding a malformed _id (0 = none)
	Sparse int    `json:"sparse,omitempty"` // every Sparse-th document lacks the fields x and y (0 = none)
	Hetero int    `json:"hetero,omitempty"` // every Hetero-th document holds a scalar in n and a top-level field a (0 = none)
}

// Docs materialises the batch.
func (g *GenSpec) Docs(idOf func(int) string) []Doc {
	out := make([]Doc, g.N)
	pad := strings.Repeat("p", g.Pad)
	mod := g.Mod
	if mod <= 0 {
		mod = 1
	}
	for k := 0; k < g.N; k++ {
		i := g.First + k
		xv := int64((g.Mul*i + g.Add) % mod)
		var x interface{} = xv
		if g.Types == "mixed" {
			switch i % 3 {
			case 1:
				x = float64(xv) + 0.5
			case 2:
				x = fmt.Sprintf("s%04d", xv)
			}
		}
		d := Doc{"_id": idOf(i), "u": int64(i), "x": x, "y": int64(i % 7), "n": map[string]interface{}{"a": int64(i % 5), "b": "k"}}
		if g.Pad > 0 {
			d["pad"] = pad
		}
		if g.Sparse > 0 && i%g.Sparse == g.Sparse-1 {
			delete(d, "x")
			delete(d, "y")
		}
		if g.Hetero > 0 && i%g.Hetero == 1 {
			// a heterogeneous collection: n is a scalar here, and a top-level field is named like the
			// leaf of the path n.a
			d["n"] = []interface{}{int64(i), "s", nil}[i%3]
			d["a"] = int64(i % 4)
		}
		if g.DupAt > 0 && k == g.DupAt {
			d["_id"] = idOf(g.First)
		}
		if g.BadAt > 0 && k == g.BadAt {
			d["_id"] = "not-a-uuid"
		}
		out[k] = d
	}
	return out
}

// Op is one step of an operation program.
type Op struct {
	Kind    string       `json:"kind"`
	Coll    string       `json:"coll,omitempty"`
	Coll2   string       `json:"coll2,omitempty"`
	Docs    []Doc        `json:"docs,omitempty"`
	Id      *IdRef       `json:"id,omitempty"`
	Q       *Query       `json:"q,omitempty"`
	Upd     *Updater     `json:"upd,omitempty"`
	UpdMap  map[string]V `json:"updmap,omitempty"`
	Field   string       `json:"field,omitempty"`
	StopAt  int          `json:"stopat,omitempty"` // ForEach: consumer returns false at the StopAt-th call (0 = never)
	Path    string       `json:"path,omitempty"`
	Content string       `json:"content,omitempty"` // import file content when not produced by an export
	Raw     []byte       `json:"raw,omitempty"`     // import file content as raw bytes (fuzz target; takes precedence)
	Note    string       `json:"note,omitempty"`
	Gen     *GenSpec     `json:"gen,omitempty"`     // kind "geninsert"
	FaultAt int64        `json:"faultat,omitempty"` // > 0: the FaultAt-th fallible store call of this operation fails
}

func (o Op) String() string {
	b, _ := json.Marshal(o)
	return string(b)
}

// Hash returns the FNV-1a hash of the JSON form of x.
func Hash(x interface{}) uint64 {
	b, _ := json.Marshal(x)
	h := fnv.New64a()
	h.Write(b)
	return h.Sum64()
}

// Outcome is what one operation returned, in a backend-independent form.
type Outcome struct {
	Err    string   `json:"err,omitempty"`   // "" | sentinel name ("ErrCollectionExist" …) | "error: <text>" | "panic: <text>" | "hang"
	Docs   []Doc    `json:"docs,omitempty"`  // FindAll / ForEach sequence; FindFirst / FindById as 0 or 1 element
	N      int      `json:"n,omitempty"`     // Count
	B      bool     `json:"b,omitempty"`     // Exists / HasCollection / HasIndex
	Names  []string `json:"names,omitempty"` // ListCollections / ListIndexes
	Ids    []string `json:"ids,omitempty"`   // Insert / InsertOne / Save: _id of each supplied document after the call
	Ret    string   `json:"ret,omitempty"`   // InsertOne: returned id
	Calls  int      `json:"calls,omitempty"` // ForEach / UpdateFunc: callback invocations
	CbIds  []string `json:"cbids,omitempty"` // UpdateFunc / UpdateById: ids the callback received, in order
	CbBad  string   `json:"cbbad,omitempty"` // callback saw an argument that differs from the pre-call document
	CbDocs []Doc    `json:"cbdocs,omitempty"`
	ArgBad string   `json:"argbad,omitempty"` // the call changed a document it was given (other than assigning a missing _id)
}

func (o *Outcome) IsErr() bool { return o.Err != "" }

// Sentinel reports whether Err names one of clover's sentinel errors.
func (o *Outcome) Sentinel() bool { return len(o.Err) > 3 && o.Err[:3] == "Err" }

// Incr is the arithmetic of the "incr" updater on integers: x+n, except that a value of the
// mixed numeric regime (|x| <= 2^53) is kept inside it by stepping the other way when x+n
// would leave it - integers beyond 2^53 are only in the properties' domain among integers
// and outside the key-order domain of indexes (C10), so an updater must not create them.
func Incr(x, n int64) int64 {
	const lim = int64(1) << 53
	if x >= -lim && x <= lim && n >= -lim && n <= lim {
		if r := x + n; r > lim || r < -lim {
			return x - n
		}
	}
	return x + n
}
