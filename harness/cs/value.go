// Package cs holds the serialisable case data shared by generators, the reference
// model and the interpreters: values, documents, criteria, queries and operations.
// It imports nothing from clover.
package cs

import (
	"encoding/base64"
	"encoding/json"
	"fmt"
	"math"
	"sort"
	"strconv"
	"time"
	"unicode/utf8"
)

// V wraps one canonical value (nil, bool, int64, uint64, float64, string, time.Time,
// []interface{}, map[string]interface{}) so that it survives a JSON round trip with
// its exact Go type.
type V struct{ X interface{} }

type jt struct {
	I  *string                    `json:"i,omitempty"`
	U  *string                    `json:"u,omitempty"`
	F  *string                    `json:"f,omitempty"`
	G  string                     `json:"~,omitempty"`
	S  *string                    `json:"s,omitempty"`
	SB *string                    `json:"sb,omitempty"`
	T  []int64                    `json:"t,omitempty"`
	A  *[]V                       `json:"a,omitempty"`
	M  *map[string]V              `json:"m,omitempty"`
	B  *bool                      `json:"b,omitempty"`
	N  *bool                      `json:"nil,omitempty"`
	X  map[string]json.RawMessage `json:"-"`
}

func (v V) MarshalJSON() ([]byte, error) {
	switch x := v.X.(type) {
	case nil:
		return []byte("null"), nil
	case bool:
		return json.Marshal(jt{B: &x})
	case int64:
		s := strconv.FormatInt(x, 10)
		return json.Marshal(jt{I: &s})
	case uint64:
		s := strconv.FormatUint(x, 10)
		return json.Marshal(jt{U: &s})
	case float64:
		s := fmt.Sprintf("0x%016x", math.Float64bits(x))
		return json.Marshal(jt{F: &s, G: strconv.FormatFloat(x, 'g', -1, 64)})
	case string:
		if utf8.ValidString(x) {
			return json.Marshal(jt{S: &x})
		}
		s := base64.StdEncoding.EncodeToString([]byte(x))
		return json.Marshal(jt{SB: &s})
	case time.Time:
		_, off := x.Zone()
		return json.Marshal(jt{T: []int64{x.Unix(), int64(x.Nanosecond()), int64(off)}})
	case []interface{}:
		a := make([]V, len(x))
		for i, e := range x {
			a[i] = V{e}
		}
		return json.Marshal(jt{A: &a})
	case map[string]interface{}:
		m := make(map[string]V, len(x))
		for k, e := range x {
			m[k] = V{e}
		}
		return json.Marshal(jt{M: &m})
	}
	return nil, fmt.Errorf("cs.V: unsupported %T", v.X)
}

func (v *V) UnmarshalJSON(b []byte) error {
	if string(b) == "null" {
		v.X = nil
		return nil
	}
	var j jt
	if err := json.Unmarshal(b, &j); err != nil {
		return err
	}
	switch {
	case j.B != nil:
		v.X = *j.B
	case j.I != nil:
		n, err := strconv.ParseInt(*j.I, 10, 64)
		if err != nil {
			return err
		}
		v.X = n
	case j.U != nil:
		n, err := strconv.ParseUint(*j.U, 10, 64)
		if err != nil {
			return err
		}
		v.X = n
	case j.F != nil:
		n, err := strconv.ParseUint((*j.F)[2:], 16, 64)
		if err != nil {
			return err
		}
		v.X = math.Float64frombits(n)
	case j.S != nil:
		v.X = *j.S
	case j.SB != nil:
		d, err := base64.StdEncoding.DecodeString(*j.SB)
		if err != nil {
			return err
		}
		v.X = string(d)
	case j.T != nil:
		if len(j.T) != 3 {
			return fmt.Errorf("cs.V: bad time")
		}
		v.X = MkTime(j.T[0], j.T[1], int(j.T[2]))
	case j.A != nil:
		a := make([]interface{}, len(*j.A))
		for i, e := range *j.A {
			a[i] = e.X
		}
		v.X = a
	case j.M != nil:
		m := make(map[string]interface{}, len(*j.M))
		for k, e := range *j.M {
			m[k] = e.X
		}
		v.X = m
	default:
		return fmt.Errorf("cs.V: cannot decode %s", string(b))
	}
	return nil
}

// MkTime builds a time with a fixed zone offset (offset 0 = UTC).
func MkTime(sec, nsec int64, off int) time.Time {
	if off == 0 {
		return time.Unix(sec, nsec).UTC()
	}
	// some offsets carry a zone name the tz database does not know, the way time.FixedZone("CEST", …)
	// or a parsed abbreviation does; a name never matters for equality (instant and offset do)
	name := ""
	switch {
	case off == 7200:
		name = "CEST"
	case off%60 != 0:
		name = "LMT"
	case off < 0 && off%3600 == 0:
		name = fmt.Sprintf("UTC%+d", off/3600)
	}
	return time.Unix(sec, nsec).In(time.FixedZone(name, off))
}

// Doc is the field map of a document.
type Doc map[string]interface{}

func (d Doc) MarshalJSON() ([]byte, error) {
	m := make(map[string]V, len(d))
	for k, e := range d {
		m[k] = V{e}
	}
	return json.Marshal(m)
}

func (d *Doc) UnmarshalJSON(b []byte) error {
	var m map[string]V
	if err := json.Unmarshal(b, &m); err != nil {
		return err
	}
	if m == nil {
		*d = nil
		return nil
	}
	out := make(Doc, len(m))
	for k, e := range m {
		out[k] = e.X
	}
	*d = out
	return nil
}

// Clone deep-copies a canonical value.
func Clone(v interface{}) interface{} {
	switch x := v.(type) {
	case []interface{}:
		a := make([]interface{}, len(x))
		for i, e := range x {
			a[i] = Clone(e)
		}
		return a
	case map[string]interface{}:
		m := make(map[string]interface{}, len(x))
		for k, e := range x {
			m[k] = Clone(e)
		}
		return m
	case Doc:
		m := make(map[string]interface{}, len(x))
		for k, e := range x {
			m[k] = Clone(e)
		}
		return m
	}
	return v
}

func CloneDoc(d Doc) Doc {
	if d == nil {
		return nil
	}
	out := make(Doc, len(d))
	for k, e := range d {
		out[k] = Clone(e)
	}
	return out
}

// SortedKeys returns the keys of m in byte order.
func SortedKeys(m map[string]interface{}) []string {
	ks := make([]string, 0, len(m))
	for k := range m {
		ks = append(ks, k)
	}
	sort.Strings(ks)
	return ks
}

// Show renders a canonical value compactly and deterministically (for messages).
func Show(v interface{}) string {
	switch x := v.(type) {
	case nil:
		return "nil"
	case bool:
		return strconv.FormatBool(x)
	case int64:
		return "i" + strconv.FormatInt(x, 10)
	case uint64:
		return "u" + strconv.FormatUint(x, 10)
	case float64:
		return "f" + strconv.FormatFloat(x, 'g', -1, 64)
	case string:
		return strconv.Quote(x)
	case time.Time:
		_, off := x.Zone()
		return fmt.Sprintf("t(%d.%09d%+d)", x.Unix(), x.Nanosecond(), off)
	case []interface{}:
		s := "["
		for i, e := range x {
			if i > 0 {
				s += ","
			}
			s += Show(e)
		}
		return s + "]"
	case map[string]interface{}:
		s := "{"
		for i, k := range SortedKeys(x) {
			if i > 0 {
				s += ","
			}
			s += strconv.Quote(k) + ":" + Show(x[k])
		}
		return s + "}"
	case Doc:
		return Show(map[string]interface{}(x))
	}
	return fmt.Sprintf("<%T %v>", v, v)
}

// StrictEqual is type-strict deep equality on canonical values: int64 != uint64 !=
// float64, times equal in instant and zone offset, a nil slice equals an empty slice
// (and a nil map an empty map), floats by value with -0 == +0 distinguished by bits.
func StrictEqual(a, b interface{}) bool {
	switch x := a.(type) {
	case nil:
		return b == nil
	case bool:
		y, ok := b.(bool)
		return ok && x == y
	case int64:
		y, ok := b.(int64)
		return ok && x == y
	case uint64:
		y, ok := b.(uint64)
		return ok && x == y
	case float64:
		y, ok := b.(float64)
		return ok && math.Float64bits(x) == math.Float64bits(y)
	case string:
		y, ok := b.(string)
		return ok && x == y
	case time.Time:
		y, ok := b.(time.Time)
		if !ok {
			return false
		}
		_, o1 := x.Zone()
		_, o2 := y.Zone()
		return x.Equal(y) && o1 == o2
	case []interface{}:
		y, ok := b.([]interface{})
		if !ok || len(x) != len(y) {
			return false
		}
		for i := range x {
			if !StrictEqual(x[i], y[i]) {
				return false
			}
		}
		return true
	case map[string]interface{}:
		var y map[string]interface{}
		switch yy := b.(type) {
		case map[string]interface{}:
			y = yy
		case Doc:
			y = yy
		default:
			return false
		}
		if len(x) != len(y) {
			return false
		}
		for k, e := range x {
			f, ok := y[k]
			if !ok || !StrictEqual(e, f) {
				return false
			}
		}
		return true
	case Doc:
		return StrictEqual(map[string]interface{}(x), b)
	}
	return false
}

// JSONImage is the value obtained by writing v as JSON (encoding/json) and reading it
// back into interface{}: every number becomes float64, a time its RFC 3339 text.
func JSONImage(v interface{}) interface{} {
	switch x := v.(type) {
	case int64:
		return float64(x)
	case uint64:
		return float64(x)
	case time.Time:
		return x.Format(time.RFC3339Nano)
	case []interface{}:
		a := make([]interface{}, len(x))
		for i, e := range x {
			a[i] = JSONImage(e)
		}
		return a
	case map[string]interface{}:
		m := make(map[string]interface{}, len(x))
		for k, e := range x {
			m[k] = JSONImage(e)
		}
		return m
	case Doc:
		return JSONImage(map[string]interface{}(x))
	}
	return v
}

// JSONImageDoc applies JSONImage to a document.
func JSONImageDoc(d Doc) Doc {
	return Doc(JSONImage(map[string]interface{}(d)).(map[string]interface{}))
}
