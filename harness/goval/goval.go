// Package goval describes arbitrary Go values as serialisable specs, builds them by
// reflection and computes - independently of clover - the canonical value the properties
// say normalisation must produce.
package goval

import (
	"errors"
	"fmt"
	"reflect"
	"time"

	"verif/harness/cs"
)

// Spec describes one Go value.
// K: nil bool string int int8 int16 int32 int64 uint uint8 uint16 uint32 uint64 float32
// float64 named-int32 named-string time ptr nilptr slice array map imap iface-slice struct
// chan func complex uintptr
type Spec struct {
	K      string   `json:"k"`
	B      bool     `json:"b,omitempty"`
	S      string   `json:"s,omitempty"`
	I      int64    `json:"i,omitempty"`
	U      uint64   `json:"u,omitempty"`
	F      float64  `json:"f,omitempty"`
	T      []int64  `json:"t,omitempty"` // sec, nsec, zone offset
	Of     *Spec    `json:"of,omitempty"`
	Elems  []Spec   `json:"elems,omitempty"`
	Keys   []string `json:"keys,omitempty"`
	Depth  int      `json:"depth,omitempty"` // nilptr: how many pointer levels the static type has
	Struct string   `json:"struct,omitempty"`
	Fields *Family  `json:"fields,omitempty"`
}

type NamedInt int32
type NamedString string
type NamedBool bool

var ErrUnsupported = errors.New("unsupported value")

var scalarTypes = map[string]reflect.Type{
	"bool": reflect.TypeOf(false), "string": reflect.TypeOf(""),
	"int": reflect.TypeOf(int(0)), "int8": reflect.TypeOf(int8(0)), "int16": reflect.TypeOf(int16(0)), "int32": reflect.TypeOf(int32(0)), "int64": reflect.TypeOf(int64(0)),
	"uint": reflect.TypeOf(uint(0)), "uint8": reflect.TypeOf(uint8(0)), "uint16": reflect.TypeOf(uint16(0)), "uint32": reflect.TypeOf(uint32(0)), "uint64": reflect.TypeOf(uint64(0)),
	"float32": reflect.TypeOf(float32(0)), "float64": reflect.TypeOf(float64(0)),
	"named-int32": reflect.TypeOf(NamedInt(0)), "named-string": reflect.TypeOf(NamedString("")), "named-bool": reflect.TypeOf(NamedBool(false)),
	"time": reflect.TypeOf(time.Time{}), "uintptr": reflect.TypeOf(uintptr(0)), "complex": reflect.TypeOf(complex128(0)),
}

var ifaceType = reflect.TypeOf((*interface{})(nil)).Elem()

// Build constructs the Go value (as interface{}).
func Build(s *Spec) interface{} {
	v := build(s)
	if !v.IsValid() {
		return nil
	}
	return v.Interface()
}

func build(s *Spec) reflect.Value {
	switch s.K {
	case "nil":
		return reflect.Value{}
	case "bool":
		return reflect.ValueOf(s.B)
	case "named-bool":
		return reflect.ValueOf(NamedBool(s.B))
	case "string":
		return reflect.ValueOf(s.S)
	case "named-string":
		return reflect.ValueOf(NamedString(s.S))
	case "int", "int8", "int16", "int32", "int64", "named-int32":
		v := reflect.New(scalarTypes[s.K]).Elem()
		v.SetInt(s.I)
		return v
	case "uint", "uint8", "uint16", "uint32", "uint64", "uintptr":
		v := reflect.New(scalarTypes[s.K]).Elem()
		v.SetUint(s.U)
		return v
	case "float32", "float64":
		v := reflect.New(scalarTypes[s.K]).Elem()
		v.SetFloat(s.F)
		return v
	case "complex":
		return reflect.ValueOf(complex(s.F, 1))
	case "time":
		return reflect.ValueOf(cs.MkTime(s.T[0], s.T[1], int(s.T[2])))
	case "chan":
		return reflect.ValueOf(make(chan int))
	case "func":
		return reflect.ValueOf(func() {})
	case "ptr":
		inner := build(s.Of)
		if !inner.IsValid() {
			// pointer to an interface holding nil
			p := reflect.New(ifaceType)
			return p
		}
		p := reflect.New(inner.Type())
		p.Elem().Set(inner)
		return p
	case "nilptr":
		t := reflect.TypeOf(0)
		if s.Of != nil {
			if iv := build(s.Of); iv.IsValid() {
				t = iv.Type()
			}
		}
		for i := 0; i < s.Depth; i++ {
			t = reflect.PointerTo(t)
		}
		return reflect.Zero(t)
	case "slice", "array", "iface-slice":
		var et reflect.Type = ifaceType
		if s.K != "iface-slice" && len(s.Elems) > 0 {
			first := build(&s.Elems[0])
			if first.IsValid() {
				et = first.Type()
				for i := range s.Elems {
					if ev := build(&s.Elems[i]); !ev.IsValid() || ev.Type() != et {
						et = ifaceType
						break
					}
				}
			}
		}
		if et.Kind() == reflect.Uint8 {
			et = ifaceType // []uint8 is binary payload, outside the value domain
		}
		var out reflect.Value
		if s.K == "array" {
			out = reflect.New(reflect.ArrayOf(len(s.Elems), et)).Elem()
		} else {
			out = reflect.MakeSlice(reflect.SliceOf(et), len(s.Elems), len(s.Elems))
		}
		for i := range s.Elems {
			if ev := build(&s.Elems[i]); ev.IsValid() {
				out.Index(i).Set(ev)
			}
		}
		return out
	case "map":
		m := reflect.MakeMap(reflect.MapOf(reflect.TypeOf(""), ifaceType))
		for i, k := range s.Keys {
			ev := build(&s.Elems[i])
			if !ev.IsValid() {
				ev = reflect.Zero(ifaceType)
			}
			m.SetMapIndex(reflect.ValueOf(k), ev)
		}
		return m
	case "nmap":
		// map keyed by a defined string type
		m := reflect.MakeMap(reflect.MapOf(reflect.TypeOf(NamedString("")), ifaceType))
		for i, k := range s.Keys {
			ev := build(&s.Elems[i])
			if !ev.IsValid() {
				ev = reflect.Zero(ifaceType)
			}
			m.SetMapIndex(reflect.ValueOf(NamedString(k)), ev)
		}
		return m
	case "imap":
		m := reflect.MakeMap(reflect.MapOf(reflect.TypeOf(0), ifaceType))
		for i := range s.Elems {
			ev := build(&s.Elems[i])
			if !ev.IsValid() {
				ev = reflect.Zero(ifaceType)
			}
			m.SetMapIndex(reflect.ValueOf(i), ev)
		}
		return m
	case "struct":
		return reflect.ValueOf(s.Fields.Build(s.Struct))
	}
	panic("goval.build: unknown kind " + s.K)
}

// Expect computes the canonical value normalisation must produce for s, or
// ErrUnsupported.
func Expect(s *Spec) (interface{}, error) {
	switch s.K {
	case "nil", "nilptr":
		return nil, nil
	case "bool", "named-bool":
		return s.B, nil
	case "string", "named-string":
		return s.S, nil
	case "int", "int8", "int16", "int32", "int64", "named-int32":
		return s.I, nil
	case "uint", "uint8", "uint16", "uint32", "uint64":
		return s.U, nil
	case "float32":
		return float64(float32(s.F)), nil
	case "float64":
		return s.F, nil
	case "time":
		return cs.MkTime(s.T[0], s.T[1], int(s.T[2])), nil
	case "ptr":
		return Expect(s.Of)
	case "slice", "array", "iface-slice":
		out := make([]interface{}, len(s.Elems))
		for i := range s.Elems {
			v, err := Expect(&s.Elems[i])
			if err != nil {
				return nil, err
			}
			out[i] = v
		}
		return out, nil
	case "map", "nmap":
		out := map[string]interface{}{}
		for i, k := range s.Keys {
			v, err := Expect(&s.Elems[i])
			if err != nil {
				return nil, err
			}
			out[k] = v
		}
		return out, nil
	case "struct":
		return s.Fields.Expect(s.Struct), nil
	case "imap", "chan", "func", "complex", "uintptr":
		return nil, ErrUnsupported
	}
	return nil, fmt.Errorf("goval.Expect: unknown kind %s", s.K)
}

// HasPtrOrStruct reports whether the spec contains a pointer or a struct, and its nesting.
func (s *Spec) Stats() (ptr, strct bool, depth int) {
	switch s.K {
	case "ptr", "nilptr":
		ptr = true
		if s.Of != nil {
			p, st, d := s.Of.Stats()
			return true, st || false && p, d
		}
		return
	case "struct":
		return true, true, 2
	case "slice", "array", "iface-slice", "map", "nmap", "imap":
		for i := range s.Elems {
			p, st, d := s.Elems[i].Stats()
			ptr = ptr || p
			strct = strct || st
			if d > depth {
				depth = d
			}
		}
		depth++
	}
	return
}
