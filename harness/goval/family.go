package goval

import (
	"time"

	"verif/harness/cs"
)

// The hand-written struct family used for tag handling (rename, omitempty, embedded
// value / pointer, nested, json+clover) and for the struct round trip.

type Inner struct {
	A int8      `clover:"alpha"`
	B *string   `clover:"b,omitempty"`
	T time.Time `clover:"t"`
}

type Emb struct {
	E1 uint16 `clover:"first"`
	E2 string
}

type Outer struct {
	Name   string         `clover:"nm"`
	Count  uint32         `clover:"count,omitempty"`
	In     Inner          `clover:"inner"`
	PIn    *Inner         `clover:"pinner,omitempty"`
	Emb                   // embedded value: flattened
	Tags   []string       `clover:"tags,omitempty"`
	M      map[string]int `clover:"m"`
	hidden int
	Ptr    **float32  `clover:"ptr"`
	When   *time.Time `clover:"when"`
	JS     int        `json:"js" clover:"cj"`
}

type Flat struct {
	I     int     `clover:"i"`
	I8    int8    `clover:"i8,omitempty"`
	I16   int16   `clover:"i16"`
	I32   int32   `clover:"i32"`
	I64   int64   `clover:"i64"`
	U     uint    `clover:"u"`
	U8    uint8   `clover:"u8"`
	U16   uint16  `clover:"u16,omitempty"`
	U32   uint32  `clover:"u32"`
	U64   uint64  `clover:"u64"`
	F32   float32 `clover:"f32"`
	F64   float64 `clover:"f64,omitempty"`
	S     string  `clover:"s,omitempty"`
	B     bool    `clover:"b,omitempty"`
	Id    string  `clover:"_id,omitempty"`
	Plain string
}

type EmbPtr struct {
	*Emb                  // embedded pointer: flattened when set
	Z    int64            `clover:"z"`
	L    []Inner          `clover:"l,omitempty"`
	MI   map[string]Inner `clover:"mi,omitempty"`
}

// Tagged mixes json and clover tags on nested, pointed and collected structs.
type Tagged struct {
	In  Inner             `json:"in2" clover:"inner"`
	PL  []*Inner          `json:"plist" clover:"pl"`
	PM  map[string]*Inner `clover:"pm"`
	Arr [2]Inner          `clover:"arr"`
	N   NamedInt          `json:"n" clover:"num,omitempty"`
}

// Cross has clover names that cross the Go / json names of other fields.
type Cross struct {
	A     string `clover:"B"`
	B     string `clover:"A"`
	Name  string `clover:"title"`
	Alias string `clover:"Name"`
	Old   int    `clover:"v1" json:"v2"`
	New   int    `clover:"v2" json:"v3"`
}

// Untagged carries no tag on any of its own fields, but holds tagged structs in a named
// field, behind a pointer, in a slice and in a map (renaming must still reach them in both
// directions).
type Untagged struct {
	Title string
	In    Inner
	P     *Inner
	L     []Inner
	M     map[string]Inner
}

// hiddenBase is an unexported type: embedding it contributes nothing to the document (its
// field is unexported, so the conversion has to skip it - reflection cannot read it).
type hiddenBase struct {
	Hid  int
	Note string
}

type EmbHidden struct {
	hiddenBase
	Name string `clover:"name"`
	N    int
}

// Two distinct struct types that print the same name (function-local types).
func localRecordA(name string, age int) interface{} {
	type record struct {
		Name string `clover:"name"`
		Age  int    `clover:"age"`
	}
	return record{Name: name, Age: age}
}

func localRecordB(code string, notes string) interface{} {
	type record struct {
		Code  string `clover:"code,omitempty"`
		Notes string
	}
	return record{Code: code, Notes: notes}
}

// Family holds the parameters from which the struct values are populated.
type Family struct {
	Name    string   `json:"name"`
	Count   uint32   `json:"count"`
	A       int8     `json:"a"`
	BSet    bool     `json:"bset"`
	BVal    string   `json:"bval"`
	T       []int64  `json:"t"`
	E1      uint16   `json:"e1"`
	E2      string   `json:"e2"`
	TagsNil bool     `json:"tagsnil"`
	Tags    []string `json:"tags"`
	MNil    bool     `json:"mnil"`
	MKeys   []string `json:"mkeys"`
	MVal    int      `json:"mval"`
	PInSet  bool     `json:"pinset"`
	PtrLvl  int      `json:"ptrlvl"` // 0: nil, 1: pointer to nil pointer, 2: set
	PtrVal  float32  `json:"ptrval"`
	WhenSet bool     `json:"whenset"`
	When    []int64  `json:"when"`
	JS      int      `json:"js"`
	I64     int64    `json:"i64"`
	U64     uint64   `json:"u64"`
	F64     float64  `json:"f64"`
	Flag    bool     `json:"flag"`
	EmbSet  bool     `json:"embset"`
	NList   int      `json:"nlist"`
}

func tm(t []int64) time.Time {
	if len(t) != 3 {
		return time.Unix(0, 0).UTC()
	}
	return cs.MkTime(t[0], t[1], int(t[2]))
}

func (f *Family) inner(k int) Inner {
	in := Inner{A: f.A + int8(k), T: tm(f.T)}
	if f.BSet {
		b := f.BVal
		in.B = &b
	}
	return in
}

func (f *Family) innerExp(k int) map[string]interface{} {
	m := map[string]interface{}{"alpha": int64(f.A + int8(k)), "t": tm(f.T)}
	if f.BSet {
		m["b"] = f.BVal
	}
	return m
}

// Build returns the struct value of the named type.
func (f *Family) Build(name string) interface{} {
	switch name {
	case "Inner":
		return f.inner(0)
	case "PtrInner":
		in := f.inner(0)
		return &in
	case "Flat":
		return Flat{I: int(f.I64 % 1000), I8: f.A, I16: int16(f.I64 % 30000), I32: int32(f.I64 % (1 << 30)), I64: f.I64, U: uint(f.U64 % 1000), U8: uint8(f.U64 % 256),
			U16: f.E1, U32: f.Count, U64: f.U64, F32: f.PtrVal, F64: f.F64, S: f.Name, B: f.Flag, Id: f.E2, Plain: f.BVal}
	case "Outer":
		o := Outer{Name: f.Name, Count: f.Count, In: f.inner(0), Emb: Emb{E1: f.E1, E2: f.E2}, hidden: 7, JS: f.JS}
		if f.PInSet {
			in := f.inner(1)
			o.PIn = &in
		}
		if !f.TagsNil {
			o.Tags = append([]string{}, f.Tags...)
		}
		if !f.MNil {
			o.M = map[string]int{}
			for i, k := range f.MKeys {
				o.M[k] = f.MVal + i
			}
		}
		switch f.PtrLvl {
		case 1:
			var p *float32
			o.Ptr = &p
		case 2:
			v := f.PtrVal
			p := &v
			o.Ptr = &p
		}
		if f.WhenSet {
			w := tm(f.When)
			o.When = &w
		}
		return o
	case "LocalA":
		return localRecordA("n"+f.Name, f.JS)
	case "LocalB":
		return localRecordB(f.E2, "notes"+f.BVal)
	case "Cross":
		return Cross{A: "a" + f.Name, B: "b" + f.BVal, Name: "n" + f.E2, Alias: "al" + f.Name, Old: f.JS, New: f.MVal + 10}
	case "Tagged":
		t := Tagged{In: f.inner(0), Arr: [2]Inner{f.inner(3), f.inner(4)}, N: NamedInt(f.JS)}
		for i := 0; i < f.NList; i++ {
			in := f.inner(i)
			t.PL = append(t.PL, &in)
		}
		if !f.MNil {
			t.PM = map[string]*Inner{}
			for i, k := range f.MKeys {
				in := f.inner(i)
				t.PM[k] = &in
			}
		}
		return t
	case "Untagged":
		u := Untagged{Title: f.Name, In: f.inner(0)}
		if f.PInSet {
			in := f.inner(1)
			u.P = &in
		}
		for i := 0; i < f.NList; i++ {
			u.L = append(u.L, f.inner(i))
		}
		if !f.MNil {
			u.M = map[string]Inner{}
			for i, k := range f.MKeys {
				u.M[k] = f.inner(i)
			}
		}
		return u
	case "EmbHidden":
		return EmbHidden{hiddenBase: hiddenBase{Hid: f.JS + 1, Note: "hidden"}, Name: f.Name, N: f.MVal}
	case "EmbPtr":
		e := EmbPtr{Z: f.I64}
		if f.EmbSet {
			e.Emb = &Emb{E1: f.E1, E2: f.E2}
		}
		for i := 0; i < f.NList; i++ {
			e.L = append(e.L, f.inner(i))
		}
		if !f.MNil {
			e.MI = map[string]Inner{}
			for i, k := range f.MKeys {
				e.MI[k] = f.inner(i)
			}
		}
		return e
	}
	panic("Family.Build: unknown struct " + name)
}

func omit(m map[string]interface{}, key string, empty bool, v interface{}) {
	if !empty {
		m[key] = v
	}
}

// Expect is the hand-written expected document of each struct (independent of
// reflection): clover tags rename, omitempty drops empty values, embedded structs are
// flattened, unexported fields are skipped, pointers are followed.
func (f *Family) Expect(name string) map[string]interface{} {
	switch name {
	case "Inner", "PtrInner":
		return f.innerExp(0)
	case "Flat":
		m := map[string]interface{}{
			"i": int64(int(f.I64 % 1000)), "i16": int64(int16(f.I64 % 30000)), "i32": int64(int32(f.I64 % (1 << 30))), "i64": f.I64,
			"u": uint64(uint(f.U64 % 1000)), "u8": uint64(uint8(f.U64 % 256)), "u32": uint64(f.Count), "u64": f.U64,
			"f32": float64(f.PtrVal), "Plain": f.BVal,
		}
		omit(m, "i8", f.A == 0, int64(f.A))
		omit(m, "u16", f.E1 == 0, uint64(f.E1))
		omit(m, "f64", f.F64 == 0, f.F64)
		omit(m, "s", f.Name == "", f.Name)
		omit(m, "b", !f.Flag, f.Flag)
		omit(m, "_id", f.E2 == "", f.E2)
		return m
	case "Outer":
		m := map[string]interface{}{"nm": f.Name, "inner": f.innerExp(0), "first": uint64(f.E1), "E2": f.E2, "cj": int64(f.JS)}
		omit(m, "count", f.Count == 0, uint64(f.Count))
		if f.PInSet {
			m["pinner"] = f.innerExp(1)
		}
		if !f.TagsNil && len(f.Tags) > 0 {
			t := make([]interface{}, len(f.Tags))
			for i, s := range f.Tags {
				t[i] = s
			}
			m["tags"] = t
		}
		mm := map[string]interface{}{}
		if !f.MNil {
			for i, k := range f.MKeys {
				mm[k] = int64(f.MVal + i)
			}
		}
		m["m"] = mm
		switch f.PtrLvl {
		case 2:
			m["ptr"] = float64(f.PtrVal)
		default:
			m["ptr"] = nil
		}
		if f.WhenSet {
			m["when"] = tm(f.When)
		} else {
			m["when"] = nil
		}
		return m
	case "LocalA":
		return map[string]interface{}{"name": "n" + f.Name, "age": int64(f.JS)}
	case "LocalB":
		m := map[string]interface{}{"Notes": "notes" + f.BVal}
		omit(m, "code", f.E2 == "", f.E2)
		return m
	case "Cross":
		return map[string]interface{}{"B": "a" + f.Name, "A": "b" + f.BVal, "title": "n" + f.E2, "Name": "al" + f.Name, "v1": int64(f.JS), "v2": int64(f.MVal + 10)}
	case "Tagged":
		m := map[string]interface{}{"inner": f.innerExp(0), "arr": []interface{}{f.innerExp(3), f.innerExp(4)}}
		pl := make([]interface{}, f.NList)
		for i := range pl {
			pl[i] = f.innerExp(i)
		}
		m["pl"] = pl
		pm := map[string]interface{}{}
		if !f.MNil {
			for i, k := range f.MKeys {
				pm[k] = f.innerExp(i)
			}
		}
		m["pm"] = pm
		omit(m, "num", f.JS == 0, int64(f.JS))
		return m
	case "Untagged":
		m := map[string]interface{}{"Title": f.Name, "In": f.innerExp(0)}
		if f.PInSet {
			m["P"] = f.innerExp(1)
		} else {
			m["P"] = nil
		}
		l := make([]interface{}, f.NList)
		for i := range l {
			l[i] = f.innerExp(i)
		}
		m["L"] = l
		mm := map[string]interface{}{}
		if !f.MNil {
			for i, k := range f.MKeys {
				mm[k] = f.innerExp(i)
			}
		}
		m["M"] = mm
		return m
	case "EmbHidden":
		return map[string]interface{}{"name": f.Name, "N": int64(f.MVal)}
	case "EmbPtr":
		m := map[string]interface{}{"z": f.I64}
		if f.EmbSet {
			m["first"] = uint64(f.E1)
			m["E2"] = f.E2
		}
		// a nil embedded pointer: the property does not say whether it contributes a nil field
		// or nothing; the comparison ignores a nil "Emb" entry
		if f.NList > 0 {
			l := make([]interface{}, f.NList)
			for i := range l {
				l[i] = f.innerExp(i)
			}
			m["l"] = l
		}
		if !f.MNil && len(f.MKeys) > 0 {
			mi := map[string]interface{}{}
			for i, k := range f.MKeys {
				mi[k] = f.innerExp(i)
			}
			m["mi"] = mi
		}
		return m
	}
	panic("Family.Expect: unknown struct " + name)
}

func timeEq(a, b time.Time) bool {
	_, oa := a.Zone()
	_, ob := b.Zone()
	return a.Equal(b) && oa == ob
}

func innerEq(a, b Inner) bool {
	if a.A != b.A || !timeEq(a.T, b.T) || (a.B == nil) != (b.B == nil) {
		return false
	}
	return a.B == nil || *a.B == *b.B
}

// StructEqual compares two values of the family semantically (nil and empty slices/maps
// are the same, times by instant and offset, unexported fields ignored).
func StructEqual(a, b interface{}) bool {
	switch x := a.(type) {
	case Inner:
		y, ok := b.(Inner)
		return ok && innerEq(x, y)
	case Flat:
		y, ok := b.(Flat)
		return ok && x == y
	case Outer:
		y, ok := b.(Outer)
		if !ok || x.Name != y.Name || x.Count != y.Count || !innerEq(x.In, y.In) || x.Emb != y.Emb || x.JS != y.JS {
			return false
		}
		if (x.PIn == nil) != (y.PIn == nil) || (x.PIn != nil && !innerEq(*x.PIn, *y.PIn)) {
			return false
		}
		if len(x.Tags) != len(y.Tags) || len(x.M) != len(y.M) {
			return false
		}
		for i := range x.Tags {
			if x.Tags[i] != y.Tags[i] {
				return false
			}
		}
		for k, v := range x.M {
			if w, ok := y.M[k]; !ok || v != w {
				return false
			}
		}
		fx := func(p **float32) (float32, bool) {
			if p == nil || *p == nil {
				return 0, false
			}
			return **p, true
		}
		vx, sx := fx(x.Ptr)
		vy, sy := fx(y.Ptr)
		if sx != sy || vx != vy {
			return false
		}
		if (x.When == nil) != (y.When == nil) || (x.When != nil && !timeEq(*x.When, *y.When)) {
			return false
		}
		return true
	case Cross:
		y, ok := b.(Cross)
		return ok && x == y
	case Tagged:
		y, ok := b.(Tagged)
		if !ok || !innerEq(x.In, y.In) || !innerEq(x.Arr[0], y.Arr[0]) || !innerEq(x.Arr[1], y.Arr[1]) || x.N != y.N || len(x.PL) != len(y.PL) || len(x.PM) != len(y.PM) {
			return false
		}
		for i := range x.PL {
			if (x.PL[i] == nil) != (y.PL[i] == nil) || (x.PL[i] != nil && !innerEq(*x.PL[i], *y.PL[i])) {
				return false
			}
		}
		for k, v := range x.PM {
			w, ok := y.PM[k]
			if !ok || (v == nil) != (w == nil) || (v != nil && !innerEq(*v, *w)) {
				return false
			}
		}
		return true
	case Untagged:
		y, ok := b.(Untagged)
		if !ok || x.Title != y.Title || !innerEq(x.In, y.In) || (x.P == nil) != (y.P == nil) || (x.P != nil && !innerEq(*x.P, *y.P)) || len(x.L) != len(y.L) || len(x.M) != len(y.M) {
			return false
		}
		for i := range x.L {
			if !innerEq(x.L[i], y.L[i]) {
				return false
			}
		}
		for k, v := range x.M {
			if w, ok := y.M[k]; !ok || !innerEq(v, w) {
				return false
			}
		}
		return true
	case EmbHidden:
		y, ok := b.(EmbHidden)
		return ok && x.Name == y.Name && x.N == y.N // the unexported embedded part does not travel
	case EmbPtr:
		y, ok := b.(EmbPtr)
		if !ok || x.Z != y.Z || (x.Emb == nil) != (y.Emb == nil) || (x.Emb != nil && *x.Emb != *y.Emb) || len(x.L) != len(y.L) || len(x.MI) != len(y.MI) {
			return false
		}
		for i := range x.L {
			if !innerEq(x.L[i], y.L[i]) {
				return false
			}
		}
		for k, v := range x.MI {
			if w, ok := y.MI[k]; !ok || !innerEq(v, w) {
				return false
			}
		}
		return true
	}
	return false
}
