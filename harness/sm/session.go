// Package sm is the single-threaded model-based state-machine engine: a Session executes
// operations against clover and the reference model in lock step.
package sm

import (
	"encoding/json"
	"fmt"
	"os"
	"path/filepath"
	"strconv"
	"strings"
	"time"

	"verif/harness/cs"
	"verif/harness/model"
	"verif/harness/run"
)

// Fail is one detected violation.
type Fail struct {
	Property string `json:"property"`
	Clause   string `json:"clause"`
	Detail   string `json:"detail"`
	Step     int    `json:"step"`
}

func (f *Fail) String() string {
	return fmt.Sprintf("[%s/%s] step %d: %s", f.Property, f.Clause, f.Step, f.Detail)
}

// Program is a replayable history.
type Program struct {
	Property string  `json:"property"`
	Profile  string  `json:"profile"`
	Backend  string  `json:"backend"`
	Ops      []cs.Op `json:"ops"`
	Fail     *Fail   `json:"fail,omitempty"`
}

// Hook is an extra invariant evaluated after every step (op has literal ids).
type Hook func(s *Session, op *cs.Op, out *cs.Outcome) *Fail

// Session is one history in progress.
type Session struct {
	Property string
	Profile  string
	Backend  string
	H        *run.Handle
	M        *model.DB
	Prev     *model.DB           // model state before the current step (for hooks)
	Resynced bool                // the current step's effect was read back from the database
	Last     *cs.Outcome         // outcome of the last operation
	Exports  map[string][]cs.Doc // resolved export path -> documents of the source at export time
	OnClose  []func()
	Ops      []cs.Op // as drawn (symbolic ids)
	Hooks    []Hook
	// id bookkeeping for clover-generated ids
	assigned map[[2]int]string
	symOf    map[string][2]int
	// history facts used by non-triviality rules
	Facts map[string]int
	// C20 is reported by every engine
	ownDir bool
}

// NewSession opens a fresh database of the given backend in a scratch directory.
func NewSession(property, profile, backend string) (*Session, error) {
	dir := run.NewScratchDir(property)
	h, err := run.Open(backend, dir)
	if err != nil {
		os.RemoveAll(dir)
		return nil, err
	}
	return &Session{Property: property, Profile: profile, Backend: backend, H: h, M: model.New(),
		assigned: map[[2]int]string{}, symOf: map[string][2]int{}, Facts: map[string]int{}, ownDir: true}, nil
}

// Close releases the database and removes the scratch directory.
func (s *Session) Close() {
	for _, f := range s.OnClose {
		f()
	}
	s.OnClose = nil
	if s.H != nil {
		// a wedged store (e.g. a leaked write transaction) would block Close forever
		done := make(chan struct{})
		go func() { s.H.Close(); close(done) }()
		select {
		case <-done:
		case <-time.After(5 * time.Second):
		}
		if s.ownDir {
			os.RemoveAll(s.H.Dir)
			os.RemoveAll(s.H.Dir + ".files")
		}
	}
}

func (s *Session) Program(f *Fail) *Program {
	return &Program{Property: s.Property, Profile: s.Profile, Backend: s.Backend, Ops: s.Ops, Fail: f}
}

// FilesDir is the directory for export/import files of this session.
func (s *Session) FilesDir() string {
	d := s.H.Dir + ".files"
	os.MkdirAll(d, 0o755)
	return d
}

// SymId returns the reference to use in a program for a live id.
func (s *Session) SymId(id string) *cs.IdRef {
	if sp, ok := s.symOf[id]; ok {
		return &cs.IdRef{Sym: true, Step: sp[0], Pos: sp[1]}
	}
	return &cs.IdRef{Lit: id}
}

const symPrefix = "@sym:"

// SymDocId is the placeholder stored in a document's _id for a generated id.
func (s *Session) SymDocId(id string) interface{} {
	if sp, ok := s.symOf[id]; ok {
		return fmt.Sprintf("%s%d:%d", symPrefix, sp[0], sp[1])
	}
	return id
}

// GenId is the id function used by geninsert batches.
func GenId(i int) string { return fmt.Sprintf("%08x-0000-4000-8000-%012x", i, i) }

// Materialize turns a parameterised batch into a plain insert (other operations unchanged).
func Materialize(op cs.Op) cs.Op {
	if op.Kind == "geninsert" {
		op.Kind = "insert"
		op.Docs = op.Gen.Docs(GenId)
		op.Gen = nil
	}
	if op.Kind == "genimport" {
		genImport(&op)
	}
	return op
}

// genImport turns a generated-import step into an import whose file holds the JSON image of
// the generated documents.
func genImport(op *cs.Op) {
	op.Kind = "import"
	docs := op.Gen.Docs(GenId)
	list := make([]interface{}, len(docs))
	op.Docs = make([]cs.Doc, len(docs))
	for i, d := range docs {
		op.Docs[i] = cs.JSONImageDoc(d)
		list[i] = map[string]interface{}(op.Docs[i])
	}
	b, _ := json.Marshal(list)
	op.Content = string(b)
	op.Gen = nil
}

func (s *Session) resolve(op *cs.Op) *cs.Op {
	r := *op
	if op.Kind == "geninsert" {
		r.Kind = "insert"
		r.Docs = op.Gen.Docs(GenId)
		return &r
	}
	if op.Kind == "genimport" {
		genImport(&r)
	}
	if op.Id != nil && op.Id.Sym {
		r.Id = &cs.IdRef{Lit: s.assigned[[2]int{op.Id.Step, op.Id.Pos}]}
	}
	if op.Path != "" && !filepath.IsAbs(op.Path) {
		r.Path = filepath.Join(s.FilesDir(), op.Path)
	}
	if op.Kind == "import" && op.Note == "fromexport" {
		// the file was written by an earlier ExportCollection: expect the JSON image of the source
		r.Docs = nil
		for _, d := range s.Exports[r.Path] {
			r.Docs = append(r.Docs, cs.JSONImageDoc(d))
		}
		return &r
	}
	if len(op.Docs) > 0 {
		r.Docs = make([]cs.Doc, len(op.Docs))
		for i, d := range op.Docs {
			r.Docs[i] = d
			if idv, ok := d["_id"].(string); ok && strings.HasPrefix(idv, symPrefix) {
				parts := strings.Split(idv[len(symPrefix):], ":")
				a, _ := strconv.Atoi(parts[0])
				b, _ := strconv.Atoi(parts[1])
				nd := cs.CloneDoc(d)
				nd["_id"] = s.assigned[[2]int{a, b}]
				r.Docs[i] = nd
			}
		}
	}
	return &r
}

// Do executes one operation on clover and on the model and evaluates the invariants.
func (s *Session) Do(op cs.Op) *Fail {
	stepNo := len(s.Ops)
	s.Ops = append(s.Ops, op)
	r := s.resolve(&op)

	if r.Kind == "import" && r.Raw != nil {
		os.WriteFile(r.Path, r.Raw, 0o644)
	} else if r.Kind == "import" && r.Content != "" {
		os.WriteFile(r.Path, []byte(r.Content), 0o644)
	}
	if r.FaultAt > 0 {
		s.H.Deco.Arm(r.FaultAt, false)
	}
	var out *cs.Outcome
	if r.Kind == "reopen" {
		out = run.Guard(func(o *cs.Outcome) {
			if err := s.H.Reopen(); err != nil {
				o.Err = "error: " + err.Error()
			}
		})
	} else {
		out = run.Exec(s.H.DB, r)
	}
	s.Last = out
	fired := false
	if r.FaultAt > 0 {
		fired = s.H.Deco.Fired
		s.H.Deco.Disarm()
	}
	if strings.HasPrefix(out.Err, "panic") || out.Err == "hang" {
		return &Fail{Property: "C20", Clause: "no-panic-no-hang", Detail: fmt.Sprintf("%s: %s", r.Kind, out.Err), Step: stepNo}
	}
	// remember generated ids
	if r.Kind == "insert" || r.Kind == "insertone" || r.Kind == "save" {
		for i, d := range r.Docs {
			if v, has := d["_id"]; (!has || v == "") && i < len(out.Ids) {
				s.assigned[[2]int{stepNo, i}] = out.Ids[i]
				if out.Err == "" {
					s.symOf[out.Ids[i]] = [2]int{stepNo, i}
				}
			}
		}
	}
	if r.Kind == "export" && out.Err == "" {
		if s.Exports == nil {
			s.Exports = map[string][]cs.Doc{}
		}
		var snap []cs.Doc
		if c := s.M.Colls[r.Coll]; c != nil {
			for _, id := range c.Ids() {
				snap = append(snap, c.Docs[id])
			}
		}
		s.Exports[r.Path] = snap
	}
	if fired {
		// an injected store failure must surface as an error and the operation must then have no
		// effect: the model is left as it is, and the comparisons of the following steps (and of the
		// hooks below) see any trace it left
		s.Facts["faults-fired"]++
		if out.Err == "" {
			return &Fail{Property: s.Property, Clause: "fault-swallowed", Detail: fmt.Sprintf("store call %d of the operation failed but it returned success  [op %s]", r.FaultAt, clip(op.String(), 1200)), Step: stepNo}
		}
		s.Prev = s.M.Clone()
		s.Resynced = false
		for _, h := range s.Hooks {
			if f := h(s, r, out); f != nil {
				f.Step = stepNo
				return f
			}
		}
		return nil
	}
	s.noteFacts(r, out)
	if r.Kind == "reopen" && out.Err == "" && !run.OnDisk(s.Backend) {
		// an in-memory database starts empty again
		fresh := model.New()
		fresh.AllowIdRewrite = s.M.AllowIdRewrite
		fresh.Closed = s.M.Closed
		s.M = fresh
	}
	s.Prev = s.M.Clone()
	s.Resynced = false
	if msg := s.M.Step(r, out); msg != "" {
		return &Fail{Property: s.Property, Clause: "model:" + r.Kind, Detail: msg + "  [op " + clip(op.String(), 1500) + "]", Step: stepNo}
	}
	if s.M.NeedResync {
		s.Resynced = true
		if f := s.resync(r, stepNo); f != nil {
			return f
		}
	}
	for _, h := range s.Hooks {
		if f := h(s, r, out); f != nil {
			f.Step = stepNo
			return f
		}
	}
	return nil
}

func (s *Session) noteFacts(op *cs.Op, out *cs.Outcome) {
	switch op.Kind {
	case "update", "updatefunc", "updatebyid", "replace", "save":
		if out.Err == "" {
			s.Facts["updates"]++
		}
	case "delete", "deletebyid":
		if out.Err == "" {
			s.Facts["deletes"]++
		}
		if op.Kind == "deletebyid" && out.Err == "" {
			if c := s.M.Colls[op.Coll]; c != nil {
				if _, live := c.Docs[op.Id.Lit]; !live {
					s.Facts["absent-id-delete"]++
				}
			}
		}
	case "dropcoll", "dropindex":
		if out.Err == "" {
			s.Facts["drops"]++
		}
	case "createindex":
		if out.Err == "" {
			s.Facts["index-created"]++
			if c := s.M.Colls[op.Coll]; c != nil && len(c.Docs) > 0 {
				s.Facts["index-created-after-data"]++
			}
		}
	case "reopen":
		s.Facts["reopens"]++
	}
	if out.Err != "" {
		switch op.Kind {
		case "find", "iterate", "count", "exists", "findfirst", "foreach", "findbyid", "hascoll", "listcolls", "hasindex", "listindexes":
		default:
			s.Facts["failed-writes"]++
		}
	}
}

// resync reads a collection back after an operation whose effect the model leaves open
// (non-unique window, _id rewrite) and checks the generic validity predicate: every
// stored document is valid and reachable under its own _id.
func (s *Session) resync(op *cs.Op, stepNo int) *Fail {
	name := op.Coll
	if op.Q != nil && op.Kind != "createbyquery" {
		name = op.Q.Coll
	}
	q := &cs.Op{Kind: "find", Q: &cs.Query{Coll: name}}
	out := run.Exec(s.H.DB, q)
	if out.Err != "" {
		return &Fail{Property: s.Property, Clause: "resync", Detail: "full scan failed: " + out.Err, Step: stepNo}
	}
	if op.Kind == "import" {
		if msg := importMatches(op.Docs, out.Docs); msg != "" {
			return &Fail{Property: "C19", Clause: "import-contents", Detail: msg + "  [op " + clip(op.String(), 600) + "]", Step: stepNo}
		}
	}
	s.M.Resync(name, out.Docs)
	return nil
}

// jsonEq: equality after JSON typing - numbers numerically, everything else strictly.
func jsonEq(a, b interface{}) bool {
	isNum := func(v interface{}) bool {
		switch v.(type) {
		case int64, uint64, float64:
			return true
		}
		return false
	}
	if isNum(a) && isNum(b) {
		return model.CmpNum(a, b) == 0
	}
	switch x := a.(type) {
	case []interface{}:
		y, ok := b.([]interface{})
		if !ok || len(x) != len(y) {
			return false
		}
		for i := range x {
			if !jsonEq(x[i], y[i]) {
				return false
			}
		}
		return true
	case map[string]interface{}:
		var y map[string]interface{}
		switch yy := b.(type) {
		case map[string]interface{}:
			y = yy
		case cs.Doc:
			y = yy
		default:
			return false
		}
		if len(x) != len(y) {
			return false
		}
		for k, e := range x {
			f, ok := y[k]
			if !ok || !jsonEq(e, f) {
				return false
			}
		}
		return true
	case cs.Doc:
		return jsonEq(map[string]interface{}(x), b)
	}
	return cs.StrictEqual(a, b)
}

// importMatches: the imported collection holds exactly the expected documents (same
// count, same _ids and field sets, values equal after JSON typing); expected documents
// without _id may have received any valid id.
func importMatches(want, got []cs.Doc) string {
	if len(want) != len(got) {
		return fmt.Sprintf("imported collection holds %d documents, the file holds %d", len(got), len(want))
	}
	byId := map[string]cs.Doc{}
	var anon []cs.Doc
	for _, d := range got {
		id, _ := d["_id"].(string)
		byId[id] = d
	}
	for _, w := range want {
		id, has := w["_id"].(string)
		if !has || id == "" {
			anon = append(anon, w)
			continue
		}
		g, ok := byId[id]
		if !ok {
			return fmt.Sprintf("document %q of the file is missing from the imported collection", id)
		}
		if !jsonEq(map[string]interface{}(w), map[string]interface{}(g)) {
			return fmt.Sprintf("document %q: file holds %s, imported %s", id, cs.Show(w), cs.Show(g))
		}
		delete(byId, id)
	}
	for _, w := range anon {
		found := ""
		for id, g := range byId {
			if !model.ValidId(id) {
				continue
			}
			g2 := cs.CloneDoc(g)
			delete(g2, "_id")
			w2 := cs.CloneDoc(w)
			delete(w2, "_id")
			if jsonEq(map[string]interface{}(w2), map[string]interface{}(g2)) {
				found = id
				break
			}
		}
		if found == "" {
			return fmt.Sprintf("document without _id %s of the file has no counterpart in the imported collection", cs.Show(w))
		}
		delete(byId, found)
	}
	return ""
}

func clip(s string, n int) string {
	if len(s) > n {
		return s[:n] + "…"
	}
	return s
}

// Save writes the program as a replay file.
func (p *Program) Save(path string) error {
	b, err := json.MarshalIndent(p, "", " ")
	if err != nil {
		return err
	}
	return os.WriteFile(path, b, 0o644)
}

func LoadProgram(path string) (*Program, error) {
	b, err := os.ReadFile(path)
	if err != nil {
		return nil, err
	}
	p := &Program{}
	if err := json.Unmarshal(b, p); err != nil {
		return nil, err
	}
	return p, nil
}
