package sm

import (
	"encoding/json"
	"path/filepath"
	"sort"
	"strings"

	"pgregory.net/rapid"

	"verif/harness/cs"
	"verif/harness/gen"
	"verif/harness/model"
	"verif/harness/run"
)

// W is a weighted operation kind.
type W struct {
	Kind   string
	Weight int
}

// Profile selects alphabets and the action mix of a state-machine check.
type Profile struct {
	Name          string
	Colls         []string
	IndexFields   []string
	Doc           gen.DocCfg
	Weights       []W
	GenIds        bool // some documents are inserted without _id
	IdPool        int
	BadIds        bool // malformed / duplicate / upper-case ids
	IdRewrite     bool // updates may try to change _id
	BadDocs       bool // updates may produce invalid documents (_expiresAt non-time)
	Crit          gen.CritEnv
	SortFields    []string
	MaxDocs       int  // soft cap on documents per collection
	NoWindowBulk  bool // bulk writes never carry skip/limit
	MissingColl   int  // 1/MissingColl of the operations target a possibly missing collection (0 = alphabet choice only)
	FaultRate     int  // 1/FaultRate of the operations run with one failing store call (0 = never)
	UpdBelowIndex bool // updaters sometimes write a path below an indexed field (n.a while n is indexed)
}

func (p *Profile) pickKind(t *rapid.T) string {
	total := 0
	for _, w := range p.Weights {
		total += w.Weight
	}
	n := uniform(t, total, "kind")
	for _, w := range p.Weights {
		if n < w.Weight {
			return w.Kind
		}
		n -= w.Weight
	}
	panic("unreachable")
}

func (p *Profile) anyColl(t *rapid.T) string {
	return rapid.SampledFrom(p.Colls).Draw(t, "coll")
}

// liveColl prefers an existing collection (9 in 10).
func (p *Profile) liveColl(t *rapid.T, s *Session) string {
	names := s.M.CollNames()
	if len(names) == 0 || rapid.IntRange(0, 9).Draw(t, "anycoll") == 0 {
		return p.anyColl(t)
	}
	return rapid.SampledFrom(names).Draw(t, "livecoll")
}

func (p *Profile) freeId(t *rapid.T, c *model.Coll) string {
	pool := p.IdPool
	if pool == 0 {
		pool = 24
	}
	k := rapid.IntRange(0, pool-1).Draw(t, "idk")
	if c != nil {
		for i := 0; i < pool; i++ {
			if _, taken := c.Docs[gen.Id((k+i)%pool)]; !taken {
				return gen.Id((k + i) % pool)
			}
		}
	}
	return gen.Id(k)
}

func (p *Profile) liveId(t *rapid.T, c *model.Coll) (string, bool) {
	if c == nil || len(c.Docs) == 0 {
		return "", false
	}
	return rapid.SampledFrom(c.Ids()).Draw(t, "liveid"), true
}

// someId: mostly a live id, sometimes one that is not stored.
func (p *Profile) someId(t *rapid.T, s *Session, c *model.Coll, pAbsent int) *cs.IdRef {
	id, ok := p.liveId(t, c)
	if !ok || rapid.IntRange(0, 99).Draw(t, "absentid") < pAbsent {
		return &cs.IdRef{Lit: p.freeId(t, c)}
	}
	return s.SymId(id)
}

func (p *Profile) valCfg(c *model.Coll) gen.ValCfg {
	return p.Doc.Val
}

func (p *Profile) newDoc(t *rapid.T, s *Session, c *model.Coll, uniq int64) cs.Doc {
	return gen.Fields(p.Doc, uniq).Draw(t, "doc")
}

// collValues samples values stored under the leaf fields of a collection.
func collValues(c *model.Coll, fields []string) []interface{} {
	if c == nil {
		return nil
	}
	var vs []interface{}
	for _, id := range c.Ids() {
		d := c.Docs[id]
		for _, f := range fields {
			if v, ok := model.Lookup(d, f); ok {
				vs = append(vs, v)
			}
		}
		if len(vs) > 60 {
			break
		}
	}
	return vs
}

func (p *Profile) query(t *rapid.T, s *Session, coll string) *cs.Query {
	c := s.M.Colls[coll]
	env := p.Crit
	if c != nil {
		env.Hot = c.IndexNames()
		fs := env.Fields
		if fs == nil {
			fs = gen.LeafFields
		}
		env.Values = collValues(c, fs)
		env.ValuesOf = map[string][]interface{}{}
		for _, f := range fs {
			env.ValuesOf[f] = collValues(c, []string{f})
		}
	}
	size := 0
	if c != nil {
		size = len(c.Docs)
	}
	qc := gen.QueryCfg{Env: env, SortFields: p.SortFields, Size: size, PCrit: 6}
	return qc.Query(t, coll)
}

// bulkQuery draws a query for Update/Delete whose target set is uniquely determined.
func (p *Profile) bulkQuery(t *rapid.T, s *Session, coll string) *cs.Query {
	q := p.query(t, s, coll)
	if p.NoWindowBulk {
		q.Skip, q.Limit = nil, nil
	}
	if c := s.M.Colls[coll]; c != nil {
		if _, ok := model.Select(q, c.Docs); !ok {
			// make the window unambiguous: sort by _id as last key, or drop the window
			if q.SortSet && len(q.Sort) > 0 && len(q.Sort) < 3 {
				q.Sort = append(q.Sort, cs.SortOpt{Field: "_id", Dir: 1})
				if _, ok := model.Select(q, c.Docs); ok {
					return q
				}
			}
			q.Skip, q.Limit = nil, nil
		}
	}
	return q
}

var updFields = []string{"x", "y", "xy", "n", "n.a", "n.b", "s", "t", "zz"}

func (p *Profile) updValue(t *rapid.T) interface{} {
	return gen.Value(p.Doc.Val, 1).Draw(t, "updval")
}

func prefixRelated(a, b string) bool {
	return a == b || len(a) < len(b) && b[:len(a)+1] == a+"." || len(b) < len(a) && a[:len(b)+1] == b+"."
}

// updField prefers a field that is currently indexed in some collection: index maintenance
// on update is where stale entries come from.
func (p *Profile) updField(t *rapid.T, s *Session) string {
	if s != nil && rapid.IntRange(0, 2).Draw(t, "upd-hot") != 0 {
		var hot []string
		for _, n := range s.M.CollNames() {
			for _, f := range s.M.Colls[n].IndexNames() {
				if f != "_id" && f != "u" {
					hot = append(hot, f)
				}
			}
		}
		if len(hot) > 0 {
			f := rapid.SampledFrom(hot).Draw(t, "updfield-hot")
			if p.UpdBelowIndex && (f == "n" || f == "x") && rapid.IntRange(0, 2).Draw(t, "upd-below-index") == 0 {
				// a path below the indexed field: the value under the index changes although the
				// update never names the field itself
				return f + ".a"
			}
			return f
		}
	}
	return rapid.SampledFrom(updFields).Draw(t, "updfield")
}

func (p *Profile) updater(t *rapid.T, s *Session, bulk bool) *cs.Updater {
	kinds := []string{"set", "set", "inplace", "inplace", "setmany", "ident"}
	if bulk {
		kinds = append(kinds, "delete")
	}
	k := rapid.SampledFrom(kinds).Draw(t, "updkind")
	u := &cs.Updater{Kind: k}
	switch k {
	case "set", "inplace":
		u.Field = p.updField(t, s)
		u.Value = cs.V{X: p.updValue(t)}
		if p.IdRewrite && rapid.IntRange(0, 3).Draw(t, "idrw") == 0 {
			u.Field = "_id"
			u.Value = cs.V{X: gen.Id(rapid.IntRange(0, 30).Draw(t, "newid"))}
			switch rapid.IntRange(0, 5).Draw(t, "idbad") {
			case 0:
				u.Value = cs.V{X: rapid.SampledFrom(gen.MalformedIds).Draw(t, "badid")}
			case 1, 2:
				// another spelling of an id that may well be the target's own: the upper-case form
				u.Value = cs.V{X: gen.UpperId(10 + rapid.IntRange(0, 5).Draw(t, "upperk"))}
			}
		} else if p.BadDocs && rapid.IntRange(0, 7).Draw(t, "baddoc") == 0 {
			u.Field = "_expiresAt"
			u.Value = cs.V{X: "soon"}
		}
	case "setmany":
		u.Values = map[string]cs.V{}
		n := rapid.IntRange(1, 3).Draw(t, "nset")
		for i := 0; i < n; i++ {
			f := rapid.SampledFrom(updFields).Draw(t, "updfield")
			ok := true
			for g := range u.Values {
				if prefixRelated(f, g) {
					ok = false
				}
			}
			if ok {
				u.Values[f] = cs.V{X: p.updValue(t)}
			}
		}
	}
	return u
}

func (p *Profile) updMap(t *rapid.T, s *Session) map[string]cs.V {
	m := map[string]cs.V{}
	n := rapid.IntRange(1, 2).Draw(t, "nupd")
	for i := 0; i < n; i++ {
		f := p.updField(t, s)
		ok := true
		for g := range m {
			if prefixRelated(f, g) {
				ok = false
			}
		}
		if ok {
			m[f] = cs.V{X: p.updValue(t)}
		}
	}
	if p.IdRewrite && rapid.IntRange(0, 5).Draw(t, "idrw") == 0 {
		m = map[string]cs.V{"_id": {X: gen.Id(rapid.IntRange(0, 30).Draw(t, "newid"))}}
	}
	return m
}

// Seed draws the opening moves of a history: a collection, a batch of documents and -
// in about half of the cases - an index, so that later steps start from a populated state.
func (p *Profile) Seed(t *rapid.T, s *Session, do func(cs.Op)) {
	coll := p.Colls[0]
	do(cs.Op{Kind: "createcoll", Coll: coll})
	ixFirst := len(p.IndexFields) > 0 && rapid.IntRange(0, 3).Draw(t, "seed-index-first") == 0
	if ixFirst {
		do(cs.Op{Kind: "createindex", Coll: coll, Field: rapid.SampledFrom(p.IndexFields).Draw(t, "seed-ixfield")})
	}
	n := rapid.IntRange(2, 7).Draw(t, "seed-ndocs")
	docs := make([]cs.Doc, n)
	for i := range docs {
		d := gen.Fields(p.Doc, int64(i)).Draw(t, "seed-doc")
		d["_id"] = gen.Id(i)
		docs[i] = d
	}
	do(cs.Op{Kind: "insert", Coll: coll, Docs: docs})
	if !ixFirst && len(p.IndexFields) > 0 && rapid.IntRange(0, 2).Draw(t, "seed-index-after") != 0 {
		do(cs.Op{Kind: "createindex", Coll: coll, Field: rapid.SampledFrom(p.IndexFields).Draw(t, "seed-ixfield")})
	}
}

// Draw draws the next operation in view of the model state.
func (p *Profile) Draw(t *rapid.T, s *Session) cs.Op {
	op := p.draw(t, s)
	if p.FaultRate > 0 && rapid.IntRange(1, p.FaultRate).Draw(t, "with-fault") == 1 {
		switch op.Kind {
		case "close", "reopen", "storm", "export", "geninsert":
		default:
			// one store call of this operation fails: it must report an error and leave no trace
			op.FaultAt = int64(rapid.SampledFrom([]int{1, 2, 3, 4, 5, 6, 8, 11, 15, 22, 35}).Draw(t, "fault-at"))
		}
	}
	return op
}

func (p *Profile) draw(t *rapid.T, s *Session) cs.Op {
	kind := p.pickKind(t)
	uniq := int64(len(s.Ops))*8 + 1000
	switch kind {
	case "createcoll":
		// prefer a name that does not exist yet
		name := p.anyColl(t)
		if s.M.Colls[name] != nil && rapid.IntRange(0, 3).Draw(t, "dupcoll") != 0 {
			for _, n := range p.Colls {
				if s.M.Colls[n] == nil {
					name = n
					break
				}
			}
		}
		return cs.Op{Kind: kind, Coll: name}
	case "dropcoll", "hascoll":
		return cs.Op{Kind: kind, Coll: p.liveColl(t, s)}
	case "listcolls", "close", "reopen":
		return cs.Op{Kind: kind}
	case "biginsert":
		// a batch of more than a thousand documents, possibly with an offending document late in it
		n := rapid.SampledFrom([]int{1001, 1100, 2500}).Draw(t, "bign")
		g := &cs.GenSpec{First: 100000 + 5000*len(s.Ops), N: n, Mul: 1, Mod: 97}
		if s.Backend != run.Bbolt {
			// on the in-memory badger store of the harness (8 MiB memtable, i.e. a budget of about
			// 1.2 MiB per transaction) this batch does not fit one transaction: badger must refuse
			// it as a whole ("Txn is too big"), never apply a part of it
			g.N, g.Pad = 2500, 700
			n = g.N
		}
		// always with an offender, so that the batch is rejected and the state stays small (large
		// successful batches are the business of C03 and C05)
		if rapid.Bool().Draw(t, "bigdup") {
			g.DupAt = rapid.SampledFrom([]int{1, 1000, n - 1}).Draw(t, "dupat")
		} else {
			g.BadAt = rapid.SampledFrom([]int{1, 1000, n - 1}).Draw(t, "badat")
		}
		return cs.Op{Kind: "geninsert", Coll: p.liveColl(t, s), Gen: g}
	case "storm":
		return cs.Op{Kind: kind, Coll: p.anyColl(t)}
	case "insert", "insertone", "save":
		coll := p.liveColl(t, s)
		c := s.M.Colls[coll]
		n := 1
		if kind == "insert" {
			n = rapid.SampledFrom([]int{0, 1, 1, 2, 3, 4, 6}).Draw(t, "ndocs")
			if p.MaxDocs > 0 && c != nil && len(c.Docs) >= p.MaxDocs {
				n = rapid.IntRange(0, 1).Draw(t, "ndocs-capped")
			}
		}
		docs := make([]cs.Doc, n)
		used := map[string]bool{}
		for i := range docs {
			d := p.newDoc(t, s, c, uniq+int64(i))
			mode := rapid.IntRange(0, 19).Draw(t, "idmode")
			switch {
			case p.GenIds && mode < 8:
				if mode == 0 {
					d["_id"] = ""
				}
				// otherwise no _id: clover generates one
			case p.BadIds && mode == 8:
				d["_id"] = rapid.SampledFrom(gen.MalformedIds).Draw(t, "badid")
			case p.BadIds && mode == 9 && c != nil && len(c.Docs) > 0:
				id, _ := p.liveId(t, c) // duplicate of a stored id
				d["_id"] = s.SymDocId(id)
			case p.BadIds && mode == 10 && i > 0:
				d["_id"] = docs[rapid.IntRange(0, i-1).Draw(t, "dupof")]["_id"] // duplicate inside the batch
				if d["_id"] == nil {
					d["_id"] = p.freeId(t, c)
				}
			case p.BadIds && mode == 11:
				d["_id"] = gen.UpperId(10 + rapid.IntRange(0, 5).Draw(t, "upper"))
			case p.GenIds && mode == 12 && i > 0 && !hasKey(docs[i-1], "_id"):
				// a copy of the previous id-less document (the executor builds both from one Go map)
				d = cs.CloneDoc(docs[i-1])
			default:
				id := p.freeId(t, c)
				if rapid.IntRange(0, 14).Draw(t, "edge-id") == 0 {
					id = gen.Id(22 + rapid.IntRange(0, 1).Draw(t, "edge-id-k")) // the all-F / all-zero UUID
				}
				for j := 0; used[id] && j < 40; j++ {
					id = gen.Id(rapid.IntRange(0, 63).Draw(t, "idk2"))
				}
				d["_id"] = id
			}
			if kind == "save" && rapid.IntRange(0, 1).Draw(t, "saveexisting") == 0 && c != nil && len(c.Docs) > 0 {
				id, _ := p.liveId(t, c)
				d["_id"] = s.SymDocId(id)
			}
			if idv, ok := d["_id"].(string); ok {
				used[idv] = true
			}
			docs[i] = d
		}
		return cs.Op{Kind: kind, Coll: coll, Docs: docs}
	case "replace":
		coll := p.liveColl(t, s)
		c := s.M.Colls[coll]
		id := p.someId(t, s, c, 10)
		d := p.newDoc(t, s, c, uniq)
		if id.Sym {
			d["_id"] = cs.IdRef{}.Lit // replaced below
			d["_id"] = symDoc(id)
		} else {
			d["_id"] = id.Lit
		}
		if p.BadIds && rapid.IntRange(0, 9).Draw(t, "mismatch") == 0 {
			d["_id"] = p.freeId(t, c)
			if !id.Sym && rapid.Bool().Draw(t, "mismatch-respell") && strings.ToUpper(id.Lit) != id.Lit {
				d["_id"] = strings.ToUpper(id.Lit) // the same UUID spelled in upper case is a different _id
			}
		}
		return cs.Op{Kind: kind, Coll: coll, Id: id, Docs: []cs.Doc{d}}
	case "updatebyid":
		coll := p.liveColl(t, s)
		c := s.M.Colls[coll]
		op := cs.Op{Kind: kind, Coll: coll, Id: p.someId(t, s, c, 10), Upd: p.updater(t, s, false)}
		if p.IdRewrite && !op.Id.Sym && rapid.IntRange(0, 5).Draw(t, "respell-own-id") == 0 {
			// rewrite _id to another spelling of the very same UUID (upper case)
			if up := strings.ToUpper(op.Id.Lit); up != op.Id.Lit {
				op.Upd = &cs.Updater{Kind: rapid.SampledFrom([]string{"set", "inplace"}).Draw(t, "respell-kind"), Field: "_id", Value: cs.V{X: up}}
			}
		}
		return op
	case "deletebyid":
		coll := p.liveColl(t, s)
		c := s.M.Colls[coll]
		return cs.Op{Kind: kind, Coll: coll, Id: p.someId(t, s, c, 30)}
	case "findbyid":
		coll := p.liveColl(t, s)
		c := s.M.Colls[coll]
		return cs.Op{Kind: kind, Coll: coll, Id: p.someId(t, s, c, 30)}
	case "update":
		coll := p.liveColl(t, s)
		return cs.Op{Kind: kind, Q: p.bulkQuery(t, s, coll), UpdMap: p.updMap(t, s)}
	case "updatefunc":
		coll := p.liveColl(t, s)
		return cs.Op{Kind: kind, Q: p.bulkQuery(t, s, coll), Upd: p.updater(t, s, true)}
	case "delete":
		coll := p.liveColl(t, s)
		return cs.Op{Kind: kind, Q: p.bulkQuery(t, s, coll)}
	case "find", "iterate", "count", "exists", "findfirst":
		coll := p.liveColl(t, s)
		q := p.query(t, s, coll)
		if s.M.Colls[coll] == nil && rapid.IntRange(0, 2).Draw(t, "missing-limit0") == 0 {
			zero := 0
			q.Limit = &zero // a window that needs no document still needs an existing collection
		}
		return cs.Op{Kind: kind, Q: q}
	case "foreach":
		coll := p.liveColl(t, s)
		return cs.Op{Kind: kind, Q: p.query(t, s, coll), StopAt: rapid.SampledFrom([]int{0, 0, 1, 2, 3}).Draw(t, "stopat")}
	case "createindex", "dropindex", "hasindex":
		coll := p.liveColl(t, s)
		c := s.M.Colls[coll]
		f := rapid.SampledFrom(p.IndexFields).Draw(t, "ixfield")
		if c != nil && rapid.IntRange(0, 3).Draw(t, "ixsteer") != 0 {
			// steer towards the successful path
			cands := []string{}
			for _, g := range p.IndexFields {
				if c.Indexes[g] == (kind != "createindex") {
					cands = append(cands, g)
				}
			}
			sort.Strings(cands)
			if len(cands) > 0 {
				f = rapid.SampledFrom(cands).Draw(t, "ixfield2")
			}
		}
		return cs.Op{Kind: kind, Coll: coll, Field: f}
	case "listindexes":
		return cs.Op{Kind: kind, Coll: p.liveColl(t, s)}
	case "export":
		op := cs.Op{Kind: kind, Coll: p.liveColl(t, s), Path: "export-" + itoa(rapid.IntRange(0, 2).Draw(t, "expfile")) + ".json"}
		if rapid.IntRange(0, 9).Draw(t, "badpath") == 0 {
			op.Path = "no-such-dir/x.json"
			op.Note = "badpath"
		}
		return op
	case "reimport":
		// import a file written by an earlier export of this history
		var paths []string
		for i := range s.Ops {
			if s.Ops[i].Kind == "export" && s.Ops[i].Note == "" {
				if _, ok := s.Exports[filepath.Join(s.FilesDir(), s.Ops[i].Path)]; ok {
					paths = append(paths, s.Ops[i].Path)
				}
			}
		}
		if len(paths) == 0 {
			return cs.Op{Kind: "export", Coll: p.liveColl(t, s), Path: "export-0.json"}
		}
		name := p.anyColl(t)
		if s.M.Colls[name] != nil && rapid.IntRange(0, 4).Draw(t, "import-existing") != 0 {
			for _, n := range p.Colls {
				if s.M.Colls[n] == nil {
					name = n
					break
				}
			}
		}
		return cs.Op{Kind: "import", Coll: name, Path: rapid.SampledFrom(paths).Draw(t, "reimport-path"), Note: "fromexport"}
	case "bigimport":
		// a file of 1001-1500 documents with the offending one (duplicate or malformed _id) at the
		// very end: the import must fail and create nothing
		name := p.anyColl(t)
		for _, n := range p.Colls {
			if s.M.Colls[n] == nil {
				name = n
				break
			}
		}
		n := rapid.SampledFrom([]int{1001, 1200, 1500}).Draw(t, "bigimport-n")
		list := make([]interface{}, 0, n)
		op := cs.Op{Kind: "import", Coll: name, Path: "bigimport-" + itoa(len(s.Ops)) + ".json"}
		for i := 0; i < n; i++ {
			d := cs.Doc{"_id": gen.Id(300000 + i), "k": float64(i)}
			if i == n-1 {
				if rapid.Bool().Draw(t, "bigimport-dup") {
					d["_id"] = gen.Id(300000)
				} else {
					d["_id"] = "not-a-uuid"
				}
			}
			op.Docs = append(op.Docs, d)
			list = append(list, map[string]interface{}(d))
		}
		b, _ := json.Marshal(list)
		op.Content = string(b)
		return op
	case "import":
		name := p.anyColl(t)
		if s.M.Colls[name] != nil && rapid.IntRange(0, 3).Draw(t, "import-existing") != 0 {
			for _, n := range p.Colls {
				if s.M.Colls[n] == nil {
					name = n
					break
				}
			}
		}
		op := cs.Op{Kind: kind, Coll: name, Path: "import-" + itoa(len(s.Ops)) + ".json"}
		switch rapid.IntRange(0, 9).Draw(t, "import-shape") {
		case 0:
			op.Content = rapid.SampledFrom([]string{"{", "[null]", "[1]", "[{\"_id\":\"00000001-0000-4000-8000-000000000001\"}", "", "{\"a\":1}", "[[]]", "[\"s\"]"}).Draw(t, "badcontent")
			op.Note = "badfile"
			if op.Content == "" {
				op.Content = " "
			}
		case 1:
			op.Path = "missing-file.json"
			op.Note = "badfile"
		default:
			n := rapid.IntRange(0, 4).Draw(t, "import-ndocs")
			cfg := p.Doc
			cfg.Val.JSONSafe, cfg.Val.NonUTF8, cfg.Val.Wide, cfg.Val.Inf = true, false, false, false
			cfg.ExpiresAt = false
			var list []interface{}
			used := map[string]bool{}
			for i := 0; i < n; i++ {
				d := cs.JSONImageDoc(gen.Fields(cfg, int64(i)).Draw(t, "import-doc"))
				mode := rapid.IntRange(0, 11).Draw(t, "import-idmode")
				switch {
				case mode == 0 && p.BadIds:
					d["_id"] = "not-a-uuid"
				case mode == 1 && p.BadIds && i > 0:
					d["_id"] = list[0].(map[string]interface{})["_id"]
				case mode == 2 && p.GenIds:
					// no _id: generated by clover
				default:
					id := gen.Id(rapid.IntRange(0, 40).Draw(t, "import-idk"))
					for j := 0; used[id] && j < 50; j++ {
						id = gen.Id(rapid.IntRange(0, 63).Draw(t, "import-idk2"))
					}
					used[id] = true
					d["_id"] = id
				}
				if d["_id"] == nil {
					delete(d, "_id")
				}
				op.Docs = append(op.Docs, d)
				list = append(list, map[string]interface{}(d))
			}
			if list == nil {
				list = []interface{}{}
			}
			b, _ := json.Marshal(list)
			op.Content = string(b)
		}
		return op
	case "createbyquery":
		src := p.liveColl(t, s)
		q := p.bulkQuery(t, s, src)
		return cs.Op{Kind: kind, Coll: p.anyColl(t), Q: q}
	}
	panic("Profile.Draw: unknown kind " + kind)
}

func symDoc(id *cs.IdRef) string {
	return symPrefix + itoa(id.Step) + ":" + itoa(id.Pos)
}

func itoa(i int) string {
	if i == 0 {
		return "0"
	}
	s := ""
	neg := i < 0
	if neg {
		i = -i
	}
	for i > 0 {
		s = string(rune('0'+i%10)) + s
		i /= 10
	}
	if neg {
		s = "-" + s
	}
	return s
}

func hasKey(d cs.Doc, k string) bool {
	_, ok := d[k]
	return ok
}

// uniform draws an integer in [0, n) with (almost) equal probabilities. rapid's IntRange and
// SampledFrom favour the low end of a range on purpose (a geometric choice of the bit length);
// with about 100 weight units that gave the first kinds of a profile a third of all steps
// (measured: createcoll 33% of the C06 steps at a weight of 5.6%).
func uniform(t *rapid.T, n int, label string) int {
	v := 0
	for i := 0; i < 16; i++ {
		if rapid.Bool().Draw(t, label) {
			v |= 1 << i
		}
	}
	return v % n
}
