package sm

import (
	"encoding/json"
	"strconv"
	"strings"
	"time"

	"verif/harness/cs"
)

func cloneOps(ops []cs.Op) []cs.Op {
	b, _ := json.Marshal(ops)
	var out []cs.Op
	json.Unmarshal(b, &out)
	return out
}

// removeOp deletes ops[k] and renumbers symbolic id references.
func removeOp(ops []cs.Op, k int) []cs.Op {
	out := cloneOps(ops)
	out = append(out[:k], out[k+1:]...)
	fix := func(step int) (int, bool) {
		if step == k {
			return 0, false
		}
		if step > k {
			return step - 1, true
		}
		return step, true
	}
	for i := range out {
		if id := out[i].Id; id != nil && id.Sym {
			if ns, ok := fix(id.Step); ok {
				id.Step = ns
			} else {
				out[i].Id = &cs.IdRef{Lit: "00000000-0000-4000-8000-0000000000ff"}
			}
		}
		for _, d := range out[i].Docs {
			if s, ok := d["_id"].(string); ok && strings.HasPrefix(s, symPrefix) {
				parts := strings.Split(s[len(symPrefix):], ":")
				a, _ := strconv.Atoi(parts[0])
				if ns, ok := fix(a); ok {
					d["_id"] = symPrefix + strconv.Itoa(ns) + ":" + parts[1]
				} else {
					d["_id"] = "00000000-0000-4000-8000-0000000000ff"
				}
			}
		}
	}
	return out
}

// critVariants proposes simpler criteria trees.
func critVariants(c *cs.Crit) []*cs.Crit {
	if c == nil {
		return nil
	}
	var out []*cs.Crit
	out = append(out, c.Sub...)
	for i, s := range c.Sub {
		for _, v := range critVariants(s) {
			n := *c
			n.Sub = append([]*cs.Crit{}, c.Sub...)
			n.Sub[i] = v
			out = append(out, &n)
		}
	}
	if len(c.Args) > 0 {
		for i := range c.Args {
			n := *c
			n.Args = append(append([]cs.Operand{}, c.Args[:i]...), c.Args[i+1:]...)
			out = append(out, &n)
		}
	}
	if c.Arg != nil && c.Arg.GoKind != "" {
		n := *c
		a := *c.Arg
		a.GoKind = ""
		n.Arg = &a
		out = append(out, &n)
	}
	return out
}

// opVariants proposes simpler versions of one operation.
func opVariants(op cs.Op) []cs.Op {
	var out []cs.Op
	cp := func() cs.Op { return cloneOps([]cs.Op{op})[0] }
	if op.Q != nil {
		if op.Q.Crit != nil {
			n := cp()
			n.Q.Crit = nil
			out = append(out, n)
			for _, v := range critVariants(op.Q.Crit) {
				n := cp()
				n.Q.Crit = v
				out = append(out, n)
			}
		}
		if op.Q.SortSet {
			n := cp()
			n.Q.SortSet, n.Q.Sort = false, nil
			out = append(out, n)
			for i := range op.Q.Sort {
				n := cp()
				n.Q.Sort = append(append([]cs.SortOpt{}, op.Q.Sort[:i]...), op.Q.Sort[i+1:]...)
				if len(n.Q.Sort) > 0 {
					out = append(out, n)
				}
			}
		}
		if op.Q.Skip != nil {
			n := cp()
			n.Q.Skip = nil
			out = append(out, n)
		}
		if op.Q.Limit != nil {
			n := cp()
			n.Q.Limit = nil
			out = append(out, n)
		}
	}
	if len(op.Docs) > 1 {
		for i := range op.Docs {
			n := cp()
			n.Docs = append(append([]cs.Doc{}, n.Docs[:i]...), n.Docs[i+1:]...)
			out = append(out, n)
		}
	}
	for di, d := range op.Docs {
		for _, k := range cs.SortedKeys(d) {
			if k == "_id" {
				continue
			}
			n := cp()
			delete(n.Docs[di], k)
			out = append(out, n)
		}
	}
	if len(op.UpdMap) > 1 {
		for k := range op.UpdMap {
			n := cp()
			delete(n.UpdMap, k)
			out = append(out, n)
		}
	}
	return out
}

// Minimize shrinks a failing program by delta debugging on its operation list and on
// each operation's query and documents. fails must re-run a candidate from scratch and
// say whether the same property/clause still fails.
func Minimize(p *Program, budget time.Duration, fails func(*Program) *Fail) *Program {
	if p.Fail == nil {
		return p
	}
	deadline := time.Now().Add(budget)
	same := func(f *Fail) bool {
		return f != nil && f.Property == p.Fail.Property && clauseKind(f.Clause) == clauseKind(p.Fail.Clause)
	}
	best := *p
	try := func(ops []cs.Op) bool {
		if time.Now().After(deadline) {
			return false
		}
		cand := best
		cand.Ops = ops
		if f := fails(&cand); same(f) {
			cand.Fail = f
			best = cand
			return true
		}
		return false
	}
	// drop everything after the failing step
	if best.Fail.Step+1 < len(best.Ops) {
		try(cloneOps(best.Ops[:best.Fail.Step+1]))
	}
	for changed := true; changed && time.Now().Before(deadline); {
		changed = false
		// chunks, then single operations, from the end
		for chunk := len(best.Ops) / 2; chunk >= 1; chunk /= 2 {
			for i := len(best.Ops) - 1 - chunk; i >= 0; i-- {
				if i+chunk > len(best.Ops)-1 {
					continue
				}
				ops := best.Ops
				for k := 0; k < chunk; k++ {
					ops = removeOp(ops, i)
				}
				if try(ops) {
					changed = true
				}
			}
		}
		for i := len(best.Ops) - 1; i >= 0; i-- {
			if i >= len(best.Ops) {
				continue
			}
			for again := true; again; {
				again = false
				for _, v := range opVariants(best.Ops[i]) {
					ops := cloneOps(best.Ops)
					ops[i] = v
					if try(ops) {
						changed, again = true, true
						break
					}
				}
			}
		}
	}
	return &best
}

func clauseKind(c string) string {
	if i := strings.Index(c, ":"); i >= 0 {
		return c[:i]
	}
	return c
}
