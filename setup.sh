#!/bin/sh
# Offline setup: build the harness once (warms the Go build cache, including the race-enabled
# standard library used by C07). Every check rebuilds from /repo's working tree anyway.
set -e
export GOFLAGS=-mod=mod GOPROXY=off GOSUMDB=off GOTOOLCHAIN=local
cd "$(dirname "$0")/harness"
mkdir -p ../bin
go test -c -o ../bin/checks.test ./checks
go test -race -c -o ../bin/checks.race.test ./checks || echo "race build unavailable"
if [ -d cmd/crashworker ]; then go build -o ../bin/crashworker ./cmd/crashworker; fi
echo setup ok
